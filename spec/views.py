"""Ghost views: map repository objects to spec values (spec/pddl_sem.py conventions).

A view reads public attributes only.  Argument *lists* are what the object can reproduce: for
dict-keyed signatures that is list(signature.keys()) — so a repeated argument shows up as a wrong arity
in the view, exactly as it would for any consumer of the object.
"""
from anytree import AnyNode


def v_types(types):
    """child -> parent name for every registered type except object."""
    out = {}
    for n, t in types.items():
        if n == "object":
            continue
        out[n] = t.parent.name if t.parent is not None else None
    return out


def v_type_chains(types):
    """name -> list of ancestor names reached through parent links (consecutive duplicates of 'object' collapsed)"""
    out = {}
    for n, t in types.items():
        chain, x, steps = [], t, 0
        while x is not None and steps < 50:
            if not chain or not (chain[-1] == x.name == "object"):
                chain.append(x.name)
            x, steps = x.parent, steps + 1
        out[n] = chain
    return out


def v_sig(sig):
    return [(k, v.name) for k, v in sig.items()]


def v_tree(node):
    from pddl_plus_parser.models import PDDLFunction
    if len(node.children) == 0:
        if isinstance(node.value, PDDLFunction):
            return ("fl",) + v_fluent_key(node.value)
        return ("num", float(node.value))
    if len(node.children) != 2:
        return ("bad-arity", node.value, len(node.children))
    return ("bin", node.value, v_tree(node.children[0]), v_tree(node.children[1]))


def v_numcond(tree):
    r = tree.root
    if len(r.children) != 2:
        return ("bad", str(r.value))
    return ("cmp", r.value, v_tree(r.children[0]), v_tree(r.children[1]))


def v_numeff(tree):
    r = tree.root
    return ("upd", r.value, v_tree(r.children[0]), v_tree(r.children[1]))


def v_lit(p):
    return ("lit", bool(p.is_positive), p.name, tuple(p.signature.keys()))


def v_glit(p):
    """grounded literal: arguments are the mapped objects, in signature order"""
    return ("lit", bool(p.is_positive), p.name, tuple(p.object_mapping[k] for k in p.signature))


def v_pre(pre):
    """Formula view of a Precondition node (recursively)."""
    from pddl_plus_parser.models import Predicate, NumericalExpressionTree, Precondition, UniversalPrecondition, GroundedPredicate
    kids = []
    for op in pre.operands:
        if isinstance(op, UniversalPrecondition):
            kids.append(v_pre(op))
        elif isinstance(op, Precondition):
            kids.append(v_pre(op))
        elif isinstance(op, GroundedPredicate):
            kids.append(v_glit(op))
        elif isinstance(op, Predicate):
            kids.append(v_lit(op))
        elif isinstance(op, NumericalExpressionTree):
            kids.append(v_numcond(op))
        else:
            kids.append(("unknown", repr(op)))
    for a, b in pre.equality_preconditions:
        kids.append(("eq", a, b))
    for a, b in pre.inequality_preconditions:
        kids.append(("neq", a, b))
    f = (pre.binary_operator, tuple(kids))
    if isinstance(pre, UniversalPrecondition):
        return ("forall", pre.quantified_parameter, pre.quantified_type.name, f)
    return f


def v_cond_effect(ce):
    effs = []
    for p in ce.discrete_effects:
        effs.append(("add" if p.is_positive else "del", p.name, tuple(p.signature.keys())))
    for n in ce.numeric_effects:
        effs.append(v_numeff(n))
    return ("when", v_pre(ce.antecedents.root), tuple(effs))


def v_effects(action):
    effs = []
    for p in action.discrete_effects:
        effs.append(("add" if p.is_positive else "del", p.name, tuple(p.signature.keys())))
    for n in action.numeric_effects:
        effs.append(v_numeff(n))
    for ce in action.conditional_effects:
        effs.append(v_cond_effect(ce))
    for ue in action.universal_effects:
        for ce in ue.conditional_effects:
            effs.append(("forall", ue.quantified_parameter, ue.quantified_type.name, v_cond_effect(ce)))
    return tuple(effs)


def v_action(a):
    return {"name": a.name, "params": v_sig(a.signature), "pre": v_pre(a.preconditions.root), "eff": v_effects(a)}


def v_domain(d):
    return {
        "name": getattr(d, "name", None),
        "requirements": list(d.requirements),
        "types": v_types(d.types),
        "constants": [(n, c.type.name) for n, c in d.constants.items()],
        "predicates": {n: v_sig(p.signature) for n, p in d.predicates.items()},
        "functions": {n: v_sig(f.signature) for n, f in d.functions.items()},
        "actions": {n: v_action(a) for n, a in d.actions.items()},
    }


def v_fluent_key(f):
    """(name, args) of a grounded PDDLFunction, re-expanding repeated arguments the way the object records them."""
    args = []
    for var, n in (f.repeating_variables or {}).items():
        args.extend([var] * n)
    args.extend(p for p in f.signature if p not in (f.repeating_variables or {}))
    return (f.name, tuple(args))


def v_state(s):
    facts = set()
    for bucket in s.state_predicates.values():
        for p in bucket:
            facts.add((p.name, tuple(p.object_mapping[k] for k in p.signature)))
    fluents = {}
    for f in s.state_fluents.values():
        fluents[v_fluent_key(f)] = float(f.value)
    return frozenset(facts), fluents


def v_problem(p):
    facts = set()
    for bucket in p.initial_state_predicates.values():
        for g in bucket:
            facts.add((g.name, tuple(g.object_mapping[k] for k in g.signature)))
    fluents = {v_fluent_key(f): float(f.value) for f in p.initial_state_fluents.values()}
    return {
        "name": p.name,
        "objects": [(n, o.type.name) for n, o in p.objects.items()],
        "facts": facts, "fluents": fluents,
        "goal_lits": [(g.name, tuple(g.object_mapping[k] for k in g.signature)) for g in p.goal_state_predicates],
        "goal_num": [v_numcond(t) for t in p.goal_state_fluents],
    }
