"""Executable spec: character-level PDDL lexer and strict S-expression reader (independent of the repo code)."""

WS = " \t\r\n\x0b\x0c\x1c\x1d\x1e\x1f\x85\xa0"   # str.split() whitespace within the alphabets we enumerate


def lexline(line):
    """Tokens of one line: strip from the first ';' to the end of the line, lower-case, parentheses are
    tokens, maximal runs of non-whitespace non-parenthesis characters are tokens."""
    i = line.find(";")
    if i >= 0:
        line = line[:i]
    out = []
    cur = ""
    for ch in line.lower():
        if ch in "()":
            if cur:
                out.append(cur)
                cur = ""
            out.append(ch)
        elif ch.isspace():
            if cur:
                out.append(cur)
                cur = ""
        else:
            cur += ch
    if cur:
        out.append(cur)
    return out


def lex(text):
    out = []
    for line in text.split("\n"):
        out.extend(lexline(line))
    return out


class Reject(Exception):
    pass


def read_all(tokens):
    """The unique S-expression whose flattening is `tokens`; Reject when unbalanced or trailing tokens."""
    pos = 0

    def rd():
        nonlocal pos
        if pos >= len(tokens):
            raise Reject("unexpected end of input")
        t = tokens[pos]
        pos += 1
        if t == "(":
            items = []
            while True:
                if pos >= len(tokens):
                    raise Reject("missing )")
                if tokens[pos] == ")":
                    pos += 1
                    return items
                items.append(rd())
        if t == ")":
            raise Reject("unexpected )")
        return t
    e = rd()
    if pos != len(tokens):
        raise Reject("text continues after the top-level form")
    return e


def flat(e):
    if isinstance(e, str):
        return [e]
    out = ["("]
    for x in e:
        out.extend(flat(x))
    out.append(")")
    return out


def read_text(text):
    return read_all(lex(text))
