"""Generators of small PDDL domains / formulas / effects / states over a fixed vocabulary (bounded harnesses).

Vocabulary: types  b - a, a - object (so `b` objects are also `a` objects and `object`s);
predicates (p ?x - a) (q ?x - a) (r ?x - a ?y - a) (g) (s ?x - b); functions (f ?x - a) (c) (d ?x - a ?y - a); constant k - a (optional);
objects o1 - a, o2 - b.
"""
import itertools

TYPES_DECL = {"a": "object", "b": "a"}
PREDS = {"p": [("?x", "a")], "q": [("?x", "a")], "r": [("?x", "a"), ("?y", "a")], "g": [], "s": [("?x", "b")]}
FUNCS = {"f": [("?x", "a")], "c": [], "d": [("?x", "a"), ("?y", "a")]}
OBJECTS = {"o1": "a", "o2": "b"}
CONSTS = {"k": "a", "k2": "b"}

HEADER = """(define (domain gen)
(:requirements :typing :negative-preconditions :equality :disjunctive-preconditions :universal-preconditions :conditional-effects :fluents)
(:types b - a a - object)
{consts}
(:predicates (p ?x - a) (q ?x - a) (r ?x - a ?y - a) (g) (s ?x - b))
(:functions (f ?x - a) (c) (d ?x - a ?y - a))
"""


def domain_text(actions, with_const=False):
    """actions: list of (name, params_text, pre_text, eff_text)"""
    out = HEADER.format(consts="(:constants k - a k2 - b)" if with_const else "")
    for name, params, pre, eff in actions:
        out += f"(:action {name}\n :parameters ({params})\n :precondition {pre}\n :effect {eff})\n"
    return out + ")\n"


# ---- formulas (as text) over parameters ?x ?y (type a) -------------------------------------------
ATOMS = ["(p ?x)", "(q ?y)", "(r ?x ?y)", "(g)", "(not (p ?x))", "(not (r ?y ?x))", "(= ?x ?y)", "(not (= ?x ?y))",
         "(>= (f ?x) 1)", "(< (c) (f ?y))", "(= (c) 2)", "(<= (+ (f ?x) (c)) 2)", "(>= (d ?x ?y) 1)"]
CONST_ATOMS = ["(p k)", "(not (r ?x k))", "(> (f k) 0)"]
QATOMS = ["(p ?z)", "(not (q ?z))", "(r ?x ?z)", "(>= (f ?z) 1)", "(not (= ?z ?x))"]


def formulas(level):
    """Precondition bodies.  level 0: tiny; 1: quick; 2: thorough."""
    out = ["(and)"]
    out += [f"(and {a})" for a in ATOMS]
    pairs = list(itertools.combinations(ATOMS, 2))
    step = {0: 17, 1: 3, 2: 1}[level]
    for i, (a, b) in enumerate(pairs):
        if i % step == 0:
            out.append(f"(and {a} {b})")
            out.append(f"(and (or {a} {b}))")
    for i, (a, b) in enumerate(pairs):
        if i % (step * 2) == 1:
            out.append(f"(and {ATOMS[(i * 7) % len(ATOMS)]} (or {a} {b}))")
            out.append(f"(and (or {a} (and {b} {ATOMS[(i * 5) % len(ATOMS)]})))")
    out.append("(and (or))")
    out.append("(and (or (= ?x ?y)))")
    out.append("(and (or (not (= ?x ?y)) (g)))")
    for ty in ("a", "b", "object"):
        for i, qa in enumerate(QATOMS):
            out.append(f"(and (forall (?z - {ty}) (and {qa})))")
            if level >= 1:
                qb = QATOMS[(i + 2) % len(QATOMS)]
                out.append(f"(and (forall (?z - {ty}) (or {qa} {qb})))")
                out.append(f"(and (g) (forall (?z - {ty}) (and {qa} {qb})))")
    if level >= 1:
        out.append("(and (or (p ?x) (forall (?z - a) (and (q ?z)))))")
        out.append("(and (forall (?z - b) (and (s ?z) (or (p ?z) (q ?z)))))")
    return out


def const_formulas():
    return [f"(and {a})" for a in CONST_ATOMS] + ["(and (or (p k) (q ?y)))", "(and (forall (?z - a) (and (r ?z k))))",
                                                   "(and (r k2 ?x))", "(and (not (r ?y k2)) (s k2))", "(and (r k2 k))", "(and (>= (d k2 ?x) 1))"]


# ---- effects (as text) -----------------------------------------------------------------------------
SIMPLE_EFFS = ["(p ?x)", "(not (q ?y))", "(r ?x ?y)", "(not (r ?x ?y))", "(g)", "(not (g))", "(increase (c) 1)",
               "(decrease (f ?x) (c))", "(assign (f ?y) (+ (c) (f ?x)))", "(assign (c) (* (f ?x) 2))", "(increase (d ?x ?y) 1)"]
CONDS = ["(and (p ?x))", "(and (not (q ?y)))", "(and (= ?x ?y))", "(and (>= (c) 1))", "(and (or (g) (q ?x)))", "(p ?y)", "(and (p ?x) (not (g)))", "(or (g) (q ?x))", "(or (not (p ?y)) (>= (c) 2))"]
Q_EFFS = ["(forall (?z - a) (when (and (p ?z)) (q ?z)))", "(forall (?z - b) (when (and (not (q ?z))) (and (p ?z) (increase (c) 1))))",
          "(forall (?z - object) (when (and (r ?x ?z)) (not (r ?x ?z))))", "(forall (?z - a) (when (and (>= (f ?z) 1)) (assign (f ?z) 0)))",
          "(forall (?z - a) (when (and (not (= ?z ?x))) (p ?z)))"]


def effect_bodies(level):
    out = []
    for e in SIMPLE_EFFS:
        out.append(f"(and {e})")
    pairs = list(itertools.combinations(SIMPLE_EFFS, 2))
    step = {0: 11, 1: 3, 2: 1}[level]
    for i, (a, b) in enumerate(pairs):
        if i % step == 0:
            out.append(f"(and {a} {b})")
    for i, c in enumerate(CONDS):
        for j, e in enumerate(SIMPLE_EFFS):
            if (i + j) % step == 0:
                out.append(f"(and (when {c} {e}))")
                out.append(f"(and {SIMPLE_EFFS[(j + 3) % len(SIMPLE_EFFS)]} (when {c} (and {e} {SIMPLE_EFFS[(j + 5) % len(SIMPLE_EFFS)]})))")
    for q in Q_EFFS:
        out.append(f"(and {q})")
        out.append(f"(and (g) {q})")
    out.append("(and (increase (c) 1) (when (and (g)) (assign (f ?x) (c))))")      # rhs must read the pre-state
    out.append("(and (increase (c) 1) (forall (?z - a) (when (and (p ?z)) (assign (f ?z) (c)))))")
    out.append("(and (assign (c) 5) (not (g)) (forall (?z - a) (when (and (g)) (increase (f ?z) (c)))))")
    out.append("(and (when (and (p ?x)) (not (p ?x))) (when (and (p ?x)) (q ?x)))")  # conditions read the pre-state
    out.append("(and (not (p ?x)) (p ?x))")                                         # delete then add
    return out


# ---- states ----------------------------------------------------------------------------------------
def ground_atoms(objects):
    """All ground atoms / fluents over the objects (type-correct)."""
    from .pddl_sem import is_subtype
    atoms = []
    for name, sig in PREDS.items():
        doms = [[o for o, t in objects.items() if is_subtype(TYPES_DECL, t, ty)] for _, ty in sig]
        for args in itertools.product(*doms):
            atoms.append((name, tuple(args)))
    fls = []
    for name, sig in FUNCS.items():
        doms = [[o for o, t in objects.items() if is_subtype(TYPES_DECL, t, ty)] for _, ty in sig]
        for args in itertools.product(*doms):
            fls.append((name, tuple(args)))
    return atoms, fls


def mentioned(spec_formulas_and_effects, envs, objects):
    """Ground atoms / fluents that formulas or effects can read or write under the given environments."""
    from .pddl_sem import is_subtype
    atoms, fls = set(), set()

    def walk(x, env):
        k = x[0]
        if k in ("and", "or"):
            for y in x[1]:
                walk(y, env)
        elif k == "lit":
            atoms.add((x[2], tuple(env.get(a, a) for a in x[3])))
        elif k in ("add", "del"):
            atoms.add((x[1], tuple(env.get(a, a) for a in x[2])))
        elif k == "cmp":
            walk(x[2], env)
            walk(x[3], env)
        elif k == "fl":
            fls.add((x[1], tuple(env.get(a, a) for a in x[2])))
        elif k == "bin":
            walk(x[2], env)
            walk(x[3], env)
        elif k == "upd":
            walk(x[2], env)
            walk(x[3], env)
        elif k == "when":
            walk(x[1], env)
            for e in x[2]:
                walk(e, env)
        elif k == "forall":
            for o, t in objects.items():
                if is_subtype(TYPES_DECL, t, x[2]):
                    e2 = dict(env)
                    e2[x[1]] = o
                    walk(x[3], e2)
    for item in spec_formulas_and_effects:
        for env in envs:
            walk(item, env)
    return sorted(atoms), sorted(fls)


def states_over(atoms, fls, values=(0.0, 1.0, 2.0), all_fluents=(), max_states=None, rnd=None):
    """Every assignment to the mentioned atoms x every valuation of the mentioned fluents; other fluents are
    defined with value 0 (the state defines every fluent)."""
    fact_sets = list(itertools.chain.from_iterable(itertools.combinations(atoms, n) for n in range(len(atoms) + 1)))
    valuations = list(itertools.product(values, repeat=len(fls)))
    combos = [(fs, vs) for fs in fact_sets for vs in valuations]
    if max_states and len(combos) > max_states and rnd is not None:
        combos = rnd.sample(combos, max_states)
    for fs, vs in combos:
        fluents = {k: 0.0 for k in all_fluents}
        fluents.update(dict(zip(fls, vs)))
        yield frozenset(fs), fluents


# ---- a small executable scenario: domain + problem + all short plans (C04, C09, C10, C15, C16) ------
SCEN_ACTIONS = [
    ("mv", "?x - a ?y - a", "(and (p ?x) (not (p ?y)))", "(and (not (p ?x)) (p ?y) (increase (c) 1))"),
    ("mk", "?x - a", "(and (not (q ?x)))", "(and (q ?x) (when (and (p ?x)) (g)) (increase (f ?x) 2))"),
    ("cl", "", "(and (g))", "(and (not (g)) (forall (?z - a) (when (and (q ?z)) (not (q ?z)))) (assign (c) 0))"),
    ("dd", "?x - a ?y - a", "(and (>= (c) 1))", "(and (increase (d ?x ?y) 1) (decrease (c) 1))"),
]
SCEN_PARAMS = {"mv": 2, "mk": 1, "cl": 0, "dd": 2}


def scenario_domain_text():
    return domain_text(SCEN_ACTIONS)


def scenario_problem_text(init_extra=()):
    objs = "o1 - a o2 - b"
    init = ["(p o1)", "(= (c) 0)", "(= (f o1) 0)", "(= (f o2) 0)", "(= (d o1 o1) 0)", "(= (d o1 o2) 0)", "(= (d o2 o1) 0)", "(= (d o2 o2) 0)"]
    init += list(init_extra)
    return f"(define (problem scen) (:domain gen) (:objects {objs}) (:init {' '.join(init)}) (:goal (and (q o2) (>= (c) 1))))"


def scenario_calls():
    out = []
    for name, n in SCEN_PARAMS.items():
        for args in itertools.product(list(OBJECTS), repeat=n):
            out.append((name, args))
    return out


def plans(max_len, rnd=None, cap=None):
    calls = scenario_calls()
    allp = []
    for n in range(0, max_len + 1):
        allp.extend(itertools.product(calls, repeat=n))
    if cap and len(allp) > cap and rnd is not None:
        allp = [allp[0]] + rnd.sample(allp[1:], cap - 1)
    return allp


def call_text(call, upper=False):
    name, args = call
    t = "(" + " ".join((name,) + tuple(args)) + ")"
    return t.upper() if upper else t


# ---- multi-agent scenario (C15, C17) -----------------------------------------------------------------
MA_DOMAIN = """(define (domain ma)
(:requirements :typing :negative-preconditions :fluents)
(:types agent item - object)
(:predicates (free ?a - agent) (has ?a - agent ?i - item) (avail ?i - item) (locked ?i - item) (done ?a - agent))
(:functions (cnt) (load ?a - agent))
(:action take :parameters (?a - agent ?i - item)
 :precondition (and (free ?a) (avail ?i) (not (locked ?i)))
 :effect (and (not (free ?a)) (not (avail ?i)) (has ?a ?i) (increase (load ?a) 1)))
(:action drop :parameters (?a - agent ?i - item)
 :precondition (and (has ?a ?i))
 :effect (and (free ?a) (avail ?i) (not (has ?a ?i)) (decrease (load ?a) 1)))
(:action lock :parameters (?a - agent ?i - item)
 :precondition (and (avail ?i))
 :effect (and (not (avail ?i)) (locked ?i)))
(:action peek :parameters (?a - agent ?i - item)
 :precondition (and (avail ?i))
 :effect (and (done ?a)))
(:action give :parameters (?a - agent ?b - agent ?i - item)
 :precondition (and (has ?a ?i) (free ?b))
 :effect (and (not (has ?a ?i)) (free ?a) (has ?b ?i) (not (free ?b)) (decrease (load ?a) 1) (increase (load ?b) 1)))
(:action audit :parameters (?a - agent)
 :precondition (and (>= (cnt) 0))
 :effect (and (done ?a)))
(:action work :parameters (?a - agent)
 :precondition (and (free ?a))
 :effect (and (done ?a) (increase (cnt) 1)))
(:action rest :parameters (?a - agent)
 :precondition (and (>= (load ?a) 0))
 :effect (and (done ?a)))
)
"""
MA_AGENTS = ["a1", "a2", "a3"]
MA_ITEMS = ["i1", "i2"]


def ma_problem_text(n_agents=2):
    ags = MA_AGENTS[:n_agents]
    init = [f"(free {a})" for a in ags] + [f"(avail {i})" for i in MA_ITEMS] + ["(= (cnt) 0)"] + [f"(= (load {a}) 0)" for a in ags]
    return f"(define (problem map) (:domain ma) (:objects {' '.join(ags)} - agent {' '.join(MA_ITEMS)} - item) (:init {' '.join(init)}) (:goal (and (done {ags[0]}))))"


def ma_calls(n_agents=2):
    ags = MA_AGENTS[:n_agents]
    out = []
    for a in ags:
        for i in MA_ITEMS:
            out += [("take", (a, i)), ("drop", (a, i)), ("lock", (a, i)), ("peek", (a, i))]
        out += [("work", (a,)), ("rest", (a,)), ("audit", (a,))]
        for b in ags:
            if b != a:
                out += [("give", (a, b, i)) for i in MA_ITEMS]
    return out
