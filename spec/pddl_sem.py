"""Executable spec: an independent reading of PDDL 2.1 level-2 domain / problem / trajectory text.

Written from the PDDL reading of the text and from the property statements, never from what the
implementation returns.  `Unrepresentable` marks forms outside the fragment the library can represent:
for those the only acceptable outcomes of the implementation are 'faithful' or 'exception'.

Spec values (plain tuples, hashable, order-normalised by `norm`):
  Formula : ("and", (F..)) | ("or", (F..)) | ("lit", pos, name, (args..)) | ("eq", a, b) | ("neq", a, b)
          | ("cmp", op, N, N) | ("forall", var, type, F)
  NumExp  : ("num", float) | ("fl", name, (args..)) | ("bin", op, N, N)
  Effect  : ("add", name, args) | ("del", name, args) | ("upd", kind, ("fl",..), N)
          | ("when", F, (E..)) | ("forall", var, type, ("when", F, (E..)))
"""
from fractions import Fraction

CMP_OPS = ("<=", ">=", "<", ">", "=")
ARITH = ("+", "-", "*", "/")
ASSIGN = ("assign", "increase", "decrease")


class Unrepresentable(Exception):
    """The text uses a form outside the representable fragment (reason in args[0])."""


class Malformed(Exception):
    """The text is not well-formed PDDL for this section (implementation must raise)."""


def is_atom(x):
    return isinstance(x, str)


def sem_typed_list(items, default="object", need_qmark=False, allow_private=False):
    """[(name, type)] for a '-'-grouped typed list; names after the last group get `default`."""
    out = []
    group = []
    i = 0
    while i < len(items):
        it = items[i]
        if not is_atom(it):
            if allow_private and it and it[0] == ":private":
                out.extend(sem_typed_list(it[1:], default, need_qmark, False))
                i += 1
                continue
            raise Unrepresentable("nested list inside a typed list (either-type or similar)")
        if it == "-":
            if i + 1 >= len(items):
                raise Malformed("'-' at the end of a typed list")
            ty = items[i + 1]
            if not is_atom(ty):
                raise Unrepresentable("either type")
            out.extend((n, ty) for n in group)
            group = []
            i += 2
            continue
        if need_qmark and not it.startswith("?"):
            raise Malformed(f"parameter {it} does not start with '?'")
        group.append(it)
        i += 1
    out.extend((n, default) for n in group)
    return out


def sem_types(items):
    """child -> parent map of a (:types ...) body, order independent; 'object' is the root."""
    decl = {}
    for name, parent in sem_typed_list(items, default="object"):
        if name == "object":
            continue
        decl[name] = parent
    for parent in list(decl.values()):
        if parent != "object" and parent not in decl:
            decl[parent] = "object"
    return decl


def is_subtype(decl, a, b):
    """reflexive-transitive closure of decl with 'object' as the root."""
    seen = set()
    while True:
        if a == b:
            return True
        if a == "object":
            return False
        if a not in decl or a in seen:
            return b == "object"
        seen.add(a)
        a = decl[a]


def sem_num(ast, functions):
    if is_atom(ast):
        try:
            return ("num", float(ast))
        except ValueError:
            raise Malformed(f"bad numeric leaf {ast}")
    if not ast:
        raise Malformed("empty numeric expression")
    head = ast[0]
    if not is_atom(head):
        raise Malformed("numeric expression with a list head")
    if head in ARITH:
        if len(ast) != 3:
            if head == "-" and len(ast) == 2:
                raise Unrepresentable("unary minus")
            raise Unrepresentable("n-ary arithmetic")
        return ("bin", head, sem_num(ast[1], functions), sem_num(ast[2], functions))
    if head not in functions:
        raise Malformed(f"undeclared function {head}")
    args = tuple(ast[1:])
    if any(not is_atom(a) for a in args):
        raise Malformed("nested term as fluent argument")
    if len(args) != len(functions[head]):
        raise Malformed(f"fluent {head} with wrong arity")
    if len(set(args)) != len(args):
        raise Unrepresentable("repeated-argument")
    return ("fl", head, args)


def _lit(ast, predicates, pos):
    if is_atom(ast) or not ast or not is_atom(ast[0]):
        raise Malformed("literal expected")
    name = ast[0]
    if name not in predicates:
        raise Malformed(f"undeclared predicate {name}")
    args = tuple(ast[1:])
    if any(not is_atom(a) for a in args):
        raise Malformed("nested term as predicate argument")
    if len(args) != len(predicates[name]):
        raise Malformed(f"predicate {name} with wrong arity")
    if len(set(args)) != len(args):
        raise Unrepresentable("repeated-argument")
    return ("lit", pos, name, args)


def sem_pre(ast, predicates, functions):
    if is_atom(ast):
        raise Malformed("atom where a formula is expected")
    if len(ast) == 0:
        return ("and", ())
    head = ast[0]
    if not is_atom(head):
        raise Malformed("formula with a list head")
    if head in ("and", "or"):
        return (head, tuple(sem_pre(x, predicates, functions) for x in ast[1:]))
    if head == "not":
        if len(ast) != 2:
            raise Malformed("not with != 1 argument")
        inner = ast[1]
        if is_atom(inner) or not inner:
            raise Malformed("not of an atom")
        if inner[0] == "=" and len(inner) == 3 and is_atom(inner[1]) and is_atom(inner[2]):
            return ("neq", inner[1], inner[2])
        if is_atom(inner[0]) and inner[0] in predicates:
            return _lit(inner, predicates, False)
        raise Unrepresentable("negation of a compound / numeric formula")
    if head == "=":
        if len(ast) != 3:
            raise Malformed("= with != 2 arguments")
        if is_atom(ast[1]) and is_atom(ast[2]) and not _looks_numeric(ast[1]) and not _looks_numeric(ast[2]):
            return ("eq", ast[1], ast[2])
        return ("cmp", "=", sem_num(ast[1], functions), sem_num(ast[2], functions))
    if head in ("<=", ">=", "<", ">"):
        if len(ast) != 3:
            raise Malformed("comparison with != 2 arguments")
        return ("cmp", head, sem_num(ast[1], functions), sem_num(ast[2], functions))
    if head == "forall":
        if len(ast) != 3:
            raise Malformed("forall with != 2 arguments")
        tl = sem_typed_list(ast[1], need_qmark=True)
        if len(tl) != 1:
            raise Unrepresentable("forall over several variables")
        body = sem_pre(ast[2], predicates, functions)
        return ("forall", tl[0][0], tl[0][1], body)
    if head in ("imply", "exists", "when"):
        raise Unrepresentable(head)
    return _lit(ast, predicates, True)


def _looks_numeric(tok):
    try:
        float(tok)
        return True
    except ValueError:
        return False


def _simple_effect(ast, predicates, functions):
    if is_atom(ast) or not ast or not is_atom(ast[0]):
        raise Malformed("effect expected")
    head = ast[0]
    if head == "not":
        if len(ast) != 2:
            raise Malformed("not with != 1 argument")
        l = _lit(ast[1], predicates, False)
        return ("del", l[2], l[3])
    if head in ASSIGN:
        if len(ast) != 3:
            raise Malformed("assignment with != 2 arguments")
        tgt = sem_num(ast[1], functions)
        if tgt[0] != "fl":
            raise Malformed("assignment target is not a fluent")
        return ("upd", head, tgt, sem_num(ast[2], functions))
    if head in ("scale-up", "scale-down"):
        raise Unrepresentable(head)
    l = _lit(ast, predicates, True)
    return ("add", l[2], l[3])


def _when(ast, predicates, functions):
    if len(ast) != 3:
        raise Malformed("when with != 2 arguments")
    cond = sem_pre(ast[1], predicates, functions)
    body = ast[2]
    if is_atom(body) or not body:
        raise Malformed("when body")
    if body[0] == "and":
        effs = tuple(_simple_effect(x, predicates, functions) for x in body[1:])
    else:
        effs = (_simple_effect(body, predicates, functions),)
    return ("when", cond, effs)


def sem_eff(ast, predicates, functions):
    """tuple of effects of an (and ...) effect body (a non-'and' body is a one-element conjunction)."""
    if is_atom(ast):
        raise Malformed("atom where an effect is expected")
    if len(ast) == 0:
        return ()
    if ast[0] == "and":
        items = ast[1:]
    else:
        items = [ast]
    out = []
    for x in items:
        if is_atom(x) or not x:
            raise Malformed("effect item")
        h = x[0]
        if h == "when":
            out.append(_when(x, predicates, functions))
        elif h == "forall":
            if len(x) != 3:
                raise Malformed("forall effect with != 2 arguments")
            tl = sem_typed_list(x[1], need_qmark=True)
            if len(tl) != 1:
                raise Unrepresentable("forall effect over several variables")
            body = x[2]
            if is_atom(body) or not body:
                raise Malformed("forall body")
            if body[0] != "when":
                raise Unrepresentable("forall effect whose body is not a when")
            out.append(("forall", tl[0][0], tl[0][1], _when(body, predicates, functions)))
        elif h == "and":
            raise Unrepresentable("nested and in effect")
        else:
            out.append(_simple_effect(x, predicates, functions))
    return tuple(out)


def sem_action(ast, predicates, functions):
    """ast = [name, ':parameters', [...], ':precondition', F, ':effect', E] (any order of the three sections)."""
    if not ast or not is_atom(ast[0]):
        raise Malformed("action name")
    name = ast[0]
    rest = ast[1:]
    if len(rest) % 2:
        raise Malformed("action sections")
    secs = {}
    for k, v in zip(rest[0::2], rest[1::2]):
        if not is_atom(k):
            raise Malformed("section label")
        secs[k] = v
    if set(secs) != {":parameters", ":precondition", ":effect"}:
        raise Unrepresentable("action without exactly the three sections")
    params = sem_typed_list(secs[":parameters"], need_qmark=True)
    pre = sem_pre(secs[":precondition"], predicates, functions)
    eff = sem_eff(secs[":effect"], predicates, functions)
    return {"name": name, "params": params, "pre": pre, "eff": eff}


def _check_types(d, tys):
    for t in tys:
        if t != "object" and t not in d["types"]:
            raise Malformed(f"undeclared type {t}")


def sem_domain(ast):
    if is_atom(ast) or not ast or ast[0] != "define":
        raise Malformed("define")
    d = {"name": None, "requirements": [], "types": {}, "constants": [], "predicates": {}, "functions": {}, "actions": {}}
    for sec in ast[1:]:
        if is_atom(sec) or not sec or not is_atom(sec[0]):
            raise Malformed("section")
        h = sec[0]
        if h == "domain":
            d["name"] = sec[1]
        elif h == ":requirements":
            d["requirements"] = list(sec[1:])
        elif h == ":types":
            d["types"] = sem_types(sec[1:])
        elif h == ":constants":
            d["constants"] = sem_typed_list(sec[1:])
            _check_types(d, [t for _, t in d["constants"]])
        elif h == ":predicates":
            for p in sec[1:]:
                if p and p[0] == ":private":
                    for q in p[1:]:
                        d["predicates"][q[0]] = sem_typed_list(q[1:], need_qmark=True)
                    continue
                d["predicates"][p[0]] = sem_typed_list(p[1:], need_qmark=True)
        elif h == ":functions":
            for f in sec[1:]:
                if is_atom(f):
                    raise Unrepresentable("typed function result")
                d["functions"][f[0]] = sem_typed_list(f[1:], need_qmark=True)
        elif h == ":action":
            a = sem_action(sec[1:], d["predicates"], d["functions"])
            _check_types(d, [t for _, t in a["params"]])
            d["actions"][a["name"]] = a
        else:
            pass
    return d


# ---------------------------------------------------------------------------------------------- problems
def sem_problem(ast, dom):
    """dom: spec domain.  Returns dict(name, domain, objects[(n,t)], init_facts set, init_fluents dict, goal_lits, goal_num)
    or raises Malformed for anything the property says must be rejected."""
    if is_atom(ast) or not ast or ast[0] != "define":
        raise Malformed("define")
    p = {"name": "", "domain": None, "objects": [], "facts": set(), "fluents": {}, "goal_lits": [], "goal_num": []}
    consts = dict(dom["constants"])
    for sec in ast[1:]:
        h = sec[0]
        if h == "problem":
            p["name"] = sec[1]
        elif h == ":domain":
            p["domain"] = sec[1]
            if sec[1] != dom["name"]:
                raise Malformed("different domain")
        elif h == ":objects":
            p["objects"] = sem_typed_list(sec[1:], allow_private=True)
            for n, t in p["objects"]:
                if t != "object" and t not in dom["types"]:
                    raise Malformed(f"unknown type {t}")
        elif h == ":init":
            objs = dict(p["objects"])
            objs.update(consts)
            for comp in sec[1:]:
                kind, val = sem_state_component(comp, dom, objs)
                if kind == "fact":
                    p["facts"].add(val)
                else:
                    p["fluents"][val[0]] = val[1]
        elif h == ":goal":
            objs = dict(p["objects"])
            objs.update(consts)
            g = sec[1]
            if is_atom(g) or not g or g[0] != "and":
                raise Unrepresentable("goal that is not a conjunction")
            for comp in g[1:]:
                if comp[0] in dom["predicates"]:
                    p["goal_lits"].append(_ground_atom(comp, dom["predicates"], dom, objs))
                elif comp[0] in CMP_OPS:
                    p["goal_num"].append(("cmp", comp[0], sem_num(comp[1], dom["functions"]), sem_num(comp[2], dom["functions"])))
                else:
                    raise Malformed("illegal goal component")
    return p


def _ground_atom(comp, table, dom, objs):
    name = comp[0]
    if name not in table:
        raise Malformed(f"undeclared symbol {name}")
    args = tuple(comp[1:])
    sig = table[name]
    if len(args) != len(sig):
        raise Malformed("wrong arity")
    for a, (_, t) in zip(args, sig):
        if not is_atom(a) or a not in objs:
            raise Malformed(f"undeclared object {a}")
        if not is_subtype(dom["types"], objs[a], t):
            raise Malformed(f"object {a} of non-conforming type")
    return (name, args)


def sem_state_component(comp, dom, objs):
    if is_atom(comp) or not comp:
        raise Malformed("state component")
    if comp[0] == "=":
        if len(comp) != 3:
            raise Malformed("fluent assignment of wrong length")
        key = _ground_atom(comp[1], dom["functions"], dom, objs)
        try:
            v = float(comp[2])
        except (ValueError, TypeError):
            raise Malformed("bad number")
        return "fluent", (key, v)
    if comp[0] in dom["predicates"]:
        return "fact", _ground_atom(comp, dom["predicates"], dom, objs)
    raise Malformed("illegal state component")


# ---------------------------------------------------------------------------------------------- normal form
def norm(x):
    """Order-normalise and/or operand lists and effect lists so that set-based representations compare equal."""
    if isinstance(x, tuple) and x:
        h = x[0]
        if h in ("and", "or"):
            kids = []
            for k in (norm(k) for k in x[1]):
                if k not in kids:            # and/or are idempotent: a repeated operand denotes nothing new
                    kids.append(k)
            if len(kids) == 1:
                return kids[0]            # a conjunction / disjunction of one item denotes the item
            return (h, tuple(sorted(kids, key=repr)))
        if h == "forall":
            return ("forall", x[1], x[2], norm(x[3]))
        if h == "when":
            return ("when", norm(x[1]), tuple(sorted((norm(e) for e in x[2]), key=repr)))
        if h == "cmp":
            return x
        return x
    return x


def norm_effects(effs):
    return tuple(sorted((norm(e) for e in effs), key=repr))
