"""Executable spec: PDDL 2.1 level-2 semantics of formulas and effects over spec states.

State = (facts: frozenset[(name, args)], fluents: dict[(name, args) -> float]).
objects: dict name -> type name (problem objects and domain constants); decl: child -> parent type map.
"""
import math
from .pddl_sem import is_subtype

EPS = 1e-4


class Undefined(Exception):
    """The formula reads a fluent the state does not define / divides by zero."""


def val(n, env, fluents, missing_zero=False):
    k = n[0]
    if k == "num":
        return n[1]
    if k == "fl":
        key = (n[1], tuple(env.get(a, a) for a in n[2]))
        if key not in fluents:
            if missing_zero:
                return 0.0
            raise Undefined(key)
        return fluents[key]
    l, r = val(n[2], env, fluents, missing_zero), val(n[3], env, fluents, missing_zero)
    op = n[1]
    if op == "+":
        return l + r
    if op == "-":
        return l - r
    if op == "*":
        return l * r
    if r == 0:
        raise Undefined("division by zero")
    return l / r


def cmp(op, x, y, eps=EPS):
    close = abs(x - y) <= eps
    if op == "=":
        return close
    if op == "<=":
        return close or x < y
    if op == ">=":
        return close or x > y
    if op == "<":
        return x < y
    if op == ">":
        return x > y
    raise ValueError(op)


def holds(f, env, state, objects, decl, eps=EPS):
    facts, fluents = state
    k = f[0]
    if k == "and":
        return all(holds(x, env, state, objects, decl, eps) for x in f[1])
    if k == "or":
        return any(holds(x, env, state, objects, decl, eps) for x in f[1])
    if k == "lit":
        atom = (f[2], tuple(env.get(a, a) for a in f[3]))
        return (atom in facts) == f[1]
    if k == "eq":
        return env.get(f[1], f[1]) == env.get(f[2], f[2])
    if k == "neq":
        return env.get(f[1], f[1]) != env.get(f[2], f[2])
    if k == "cmp":
        return cmp(f[1], val(f[2], env, fluents), val(f[3], env, fluents), eps)
    if k == "forall":
        for o, t in objects.items():
            if is_subtype(decl, t, f[2]):
                e2 = dict(env)
                e2[f[1]] = o
                if not holds(f[3], e2, state, objects, decl, eps):
                    return False
        return True
    raise ValueError(f)


def firing_groups(effs, env, state, objects, decl, eps=EPS):
    """List of (env, simple effects) that fire in `state` (conditions evaluated in the pre-state)."""
    out = []
    simple = tuple(e for e in effs if e[0] in ("add", "del", "upd"))
    out.append((env, simple))
    for e in effs:
        if e[0] == "when":
            if holds(e[1], env, state, objects, decl, eps):
                out.append((env, e[2]))
        elif e[0] == "forall":
            for o, t in objects.items():
                if is_subtype(decl, t, e[2]):
                    e2 = dict(env)
                    e2[e[1]] = o
                    w = e[3]
                    if holds(w[1], e2, state, objects, decl, eps):
                        out.append((e2, w[2]))
    return out


def consistent(groups):
    """The quantifier's consistency assumption: no fluent assigned twice; no atom added by one firing group
    and deleted by another."""
    adds = []
    dels = []
    tgts = []
    for gi, (env, effs) in enumerate(groups):
        for e in effs:
            if e[0] == "add":
                adds.append((gi, (e[1], tuple(env.get(a, a) for a in e[2]))))
            elif e[0] == "del":
                dels.append((gi, (e[1], tuple(env.get(a, a) for a in e[2]))))
            else:
                tgts.append((e[2][1], tuple(env.get(a, a) for a in e[2][2])))
    if len(tgts) != len(set(tgts)):
        return False
    for gi, a in adds:
        for gj, d in dels:
            if a == d and gi != gj:
                return False
    return True


def succ(action, args, state, objects, decl, eps=EPS, check_pre=True):
    """PDDL successor of `state` under action(args); None if the precondition is false (and check_pre)."""
    env = {p: a for (p, _), a in zip(action["params"], args)}
    if check_pre and not holds(action["pre"], env, state, objects, decl, eps):
        return None
    facts, fluents = state
    groups = firing_groups(action["eff"], env, state, objects, decl, eps)
    new_facts = set(facts)
    all_adds = set()
    new_fluents = dict(fluents)
    for genv, effs in groups:
        for e in effs:
            if e[0] == "del":
                new_facts.discard((e[1], tuple(genv.get(a, a) for a in e[2])))
    for genv, effs in groups:
        for e in effs:
            if e[0] == "add":
                new_facts.add((e[1], tuple(genv.get(a, a) for a in e[2])))
            elif e[0] == "upd":
                key = (e[2][1], tuple(genv.get(a, a) for a in e[2][2]))
                v = val(e[3], genv, fluents, missing_zero=True)
                old = fluents.get(key, 0.0)
                new_fluents[key] = v if e[1] == "assign" else (old + v if e[1] == "increase" else old - v)
    return frozenset(new_facts), new_fluents


def states_equal(a, b, tol=1e-9):
    if a is None or b is None:
        return a is b
    if a[0] != b[0]:
        return False
    if set(a[1]) != set(b[1]):
        return False
    return all(math.isclose(a[1][k], b[1][k], rel_tol=tol, abs_tol=tol) for k in a[1])


def reads(f, env):
    """Ground fluents read by a formula / numeric expression (for 'the state defines every fluent the action reads')."""
    out = set()
    k = f[0]
    if k in ("and", "or"):
        for x in f[1]:
            out |= reads(x, env)
    elif k == "cmp":
        out |= reads(f[2], env) | reads(f[3], env)
    elif k == "fl":
        out.add((f[1], tuple(env.get(a, a) for a in f[2])))
    elif k == "bin":
        out |= reads(f[2], env) | reads(f[3], env)
    elif k == "forall":
        out |= reads(f[3], env)
    return out
