"""Thin helpers that call the real repository API (used by the bounded harnesses and replay)."""
import logging
import os
import tempfile
from pathlib import Path

logging.disable(logging.CRITICAL)

_TMP = None


def tmpdir():
    global _TMP
    if _TMP is None or not os.path.isdir(_TMP):
        _TMP = tempfile.mkdtemp(prefix="pyvc-h-")
        _register_cleanup(_TMP, os.getpid())
    return _TMP


def _register_cleanup(path, pid):
    """the scratch directory of a harness worker is removed when that worker exits (also a forked pool worker: those leave through
    os._exit, so multiprocessing's finalizer hook is used next to atexit)"""
    import atexit
    import shutil

    def _rm():
        if os.getpid() == pid:
            shutil.rmtree(path, ignore_errors=True)
    atexit.register(_rm)
    try:
        from multiprocessing.util import Finalize
        Finalize(None, _rm, exitpriority=1)
    except Exception:      # noqa: BLE001
        pass


def write_tmp(text, suffix=".pddl"):
    fd, p = tempfile.mkstemp(suffix=suffix, dir=tmpdir())
    with os.fdopen(fd, "w", encoding="utf-8") as f:
        f.write(text)
    return Path(p)


def parse_domain_text(text, **kw):
    from pddl_plus_parser.lisp_parsers import DomainParser
    p = write_tmp(text)
    try:
        return DomainParser(p, **kw).parse_domain()
    finally:
        os.unlink(p)


def parse_problem_text(text, domain):
    from pddl_plus_parser.lisp_parsers import ProblemParser
    p = write_tmp(text)
    try:
        return ProblemParser(p, domain).parse_problem()
    finally:
        os.unlink(p)


def domain_parser_stub():
    """A DomainParser instance for calling its section methods directly."""
    from pddl_plus_parser.lisp_parsers import DomainParser
    p = write_tmp("(define (domain stub))")
    try:
        return DomainParser(p)
    finally:
        os.unlink(p)


def outcome(fn, *a, **k):
    """('ok', value) | ('exc', ExceptionTypeName)"""
    try:
        return ("ok", fn(*a, **k))
    except Exception as ex:   # noqa: BLE001 - the contract decides which exceptions are allowed
        return ("exc", type(ex).__name__)


def make_state(domain, facts, fluents, objects=None, is_init=False):
    """Build a repository State from a spec state.  facts: iterable of (name, args); fluents: {(name,args): value}.
    Buckets are keyed by the lifted predicate's untyped text, fluent keys by the grounded untyped text, as the
    problem parser does."""
    from collections import defaultdict
    from pddl_plus_parser.models import State, GroundedPredicate, PDDLFunction
    preds = defaultdict(set)
    for name, args in facts:
        lifted = domain.predicates[name]
        mapping = {k: a for k, a in zip(lifted.signature, args)}
        preds[lifted.untyped_representation].add(GroundedPredicate(name=name, signature=lifted.signature, object_mapping=mapping))
    fl = {}
    for (name, args), v in fluents.items():
        lifted = domain.functions[name]
        sig = {a: t for a, t in zip(args, lifted.signature.values())}
        rep = {a: args.count(a) for a in args if args.count(a) > 1}     # the problem parser's bookkeeping of repeats
        f = PDDLFunction(name=name, signature=sig, repeating_variables=rep)
        f.set_value(v)
        fl[f.untyped_representation] = f
    return State(predicates=preds, fluents=fl, is_init=is_init)
