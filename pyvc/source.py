"""Mechanical extraction of the functions under contract from /repo's *current working tree*.

Nothing is copied by hand: every run re-parses the repository files with `ast`, looks the
function up by qualified name and records the sha256 of its source segment.
Dropped by the translation (and nothing else): docstrings, annotations, and calls on
`self.logger` / `logging` (see engine.Interp.exec_stmt).
"""
import ast
import hashlib
import os
from pathlib import Path

REPO = Path(os.environ.get("PYVC_REPO", "/repo"))
PKG = "pddl_plus_parser"

_cache = {}


def module_path(mod):
    """mod like 'lisp_parsers.pddl_tokenizer'; a package resolves to its __init__.py"""
    p = REPO / PKG / (mod.replace(".", "/") + ".py")
    if not p.exists() and (REPO / PKG / mod.replace(".", "/") / "__init__.py").exists():
        return REPO / PKG / mod.replace(".", "/") / "__init__.py"
    return p


def load_module(mod):
    p = module_path(mod)
    key = str(p)
    if key not in _cache:
        text = p.read_text(encoding="utf-8")
        _cache[key] = (text, ast.parse(text))
    return _cache[key]


def clear_cache():
    _cache.clear()


class FunctionSource:
    def __init__(self, key, node, text, module_tree, mod, cls):
        self.key = key          # "mod:Class.func" or "mod:func" or "mod:TABLE[key]"
        self.node = node        # ast.FunctionDef or ast.Lambda
        self.text = text
        self.sha256 = hashlib.sha256(text.encode()).hexdigest()
        self.module_tree = module_tree
        self.mod = mod
        self.cls = cls


def find_function(key):
    """key: 'models.pddl_type:PDDLType.is_sub_type_aux' | 'models.numerical_expression:calculate'
    | 'models.numerical_expression:COMPARISON_OPERATORS[<=]' (a lambda in a module-level dict)."""
    mod, qual = key.split(":", 1)
    qual = qual.split("@")[0]          # "@variant" selects one of several contracts of the same function
    text, tree = load_module(mod)
    if "[" in qual:
        table, k = qual[:-1].split("[", 1)
        for node in tree.body:
            if isinstance(node, ast.Assign) and any(isinstance(t, ast.Name) and t.id == table for t in node.targets):
                if isinstance(node.value, ast.Dict):
                    for kk, vv in zip(node.value.keys, node.value.values):
                        if isinstance(kk, ast.Constant) and kk.value == k:
                            return FunctionSource(key, vv, ast.get_source_segment(text, vv), tree, mod, None)
        raise KeyError(key)
    parts = qual.split(".")
    body = tree.body
    cls = None
    node = None
    for i, part in enumerate(parts):
        found = None
        for n in body:
            if isinstance(n, (ast.FunctionDef, ast.ClassDef)) and n.name == part:
                found = n
        if found is None:
            raise KeyError(key)
        if isinstance(found, ast.ClassDef):
            cls = found.name
            body = found.body
        node = found
    if not isinstance(node, ast.FunctionDef):
        raise KeyError(key)
    return FunctionSource(key, node, ast.get_source_segment(text, node), tree, mod, cls)


def module_constant(mod, name, depth=0):
    """Module-level `NAME = <literal>` evaluated with ast.literal_eval; returns (found, value).  Names re-exported by a package's
    __init__ (`from .x import NAME`) are followed."""
    text, tree = load_module(mod)
    if depth < 4:
        for node in tree.body:
            if isinstance(node, ast.ImportFrom) and any((a.asname or a.name) == name for a in node.names):
                orig = next(a.name for a in node.names if (a.asname or a.name) == name)
                is_pkg = module_path(mod).name == "__init__.py"
                base = mod if is_pkg else (mod.rsplit(".", 1)[0] if "." in mod else "")
                if node.level and node.module:
                    target = f"{base}.{node.module}" if base else node.module
                elif node.module and node.module.startswith(PKG + "."):
                    target = node.module[len(PKG) + 1:]
                else:
                    continue
                try:
                    return module_constant(target, orig, depth + 1)
                except FileNotFoundError:
                    continue
    for node in tree.body:
        if isinstance(node, ast.Assign) and any(isinstance(t, ast.Name) and t.id == name for t in node.targets):
            try:
                return True, ast.literal_eval(node.value)
            except Exception:
                return True, node.value  # raw ast
    return False, None


def module_imports(mod):
    """name -> (module, original name) for `from X import a as b` inside the package."""
    text, tree = load_module(mod)
    out = {}
    for node in tree.body:
        if isinstance(node, ast.ImportFrom):
            for a in node.names:
                out[a.asname or a.name] = (node.module, node.level, a.name)
    return out


def is_logging_call(node):
    """`self.logger.<m>(...)`, `logging.<m>(...)`, `logger.<m>(...)` expression statements."""
    if not (isinstance(node, ast.Expr) and isinstance(node.value, ast.Call)):
        return False
    f = node.value.func
    if not isinstance(f, ast.Attribute):
        return False
    base = f.value
    if isinstance(base, ast.Attribute) and base.attr == "logger":
        return True
    if isinstance(base, ast.Name) and base.id in ("logging", "logger"):
        return True
    return False


def logging_args_pure(node, pure_names):
    """Check that dropping a logging call drops no side effect: arguments may contain only
    names, attributes, constants, f-strings, subscripts, str()/len() calls, list comprehensions over
    those, and method calls whose name is in pure_names (functions carrying a proved `modifies {}`)."""
    ok = True
    for n in ast.walk(node.value):
        if isinstance(n, ast.Call) and n is not node.value:
            f = n.func
            nm = f.id if isinstance(f, ast.Name) else (f.attr if isinstance(f, ast.Attribute) else None)
            if nm not in pure_names:
                ok = False
        if isinstance(n, (ast.NamedExpr, ast.Await, ast.Yield, ast.YieldFrom)):
            ok = False
    return ok
