"""Discharging obligations: z3 5.1.0 (python API, rlimit budget) searches for the proof; every `unsat` it reports counts only once a
second, independently built solver (cvc5 1.0.3, else the Debian z3 4.8.12 binary) reaches `unsat` on the same SMT-LIB text."""
import hashlib
import re
import subprocess
import tempfile
import time
import os
import z3

Z3_RLIMIT = int(os.environ.get("PYVC_RLIMIT", 40_000_000))
Z3_TIMEOUT_MS = int(os.environ.get("PYVC_TIMEOUT_MS", 120_000 if os.environ.get("VERIF_TIER") == "thorough" else 20_000))
CVC5 = "/usr/bin/cvc5"
Z3_OLD = "/usr/bin/z3"
CONFIRM = os.environ.get("PYVC_CONFIRM", "1") != "0"
CONFIRM_S = int(os.environ.get("PYVC_CONFIRM_S", 20))
_CONF_MEMO = {}
_CONF = []          # confirmation outcomes of the obligation being solved: (solver or None, 'unsat' | 'sat' | 'unconfirmed')


def _run_solver(cmd, seconds):
    try:
        out = subprocess.run(cmd, capture_output=True, text=True, timeout=seconds + 5)
        words = out.stdout.split()
        return words[0] if words else "unknown"
    except Exception:
        return "unknown"


def cvc5_text(text):
    """z3 prints applications of recursive functions inside define-funs-rec as ((_ f 0) args); cvc5 wants (f args)."""
    return "(set-logic ALL)\n" + re.sub(r"\(_ ([A-Za-z_][\w!.]*) 0\)", r"\1", text)


def _core_text(text, timeout_ms):
    """The SMT-LIB text of an unsat core of `text` as z3 5.1.0 reports it (assertions tracked one by one): a subset of the assertions,
    hence a weaker set of hypotheses — if the second solver finds the subset unsatisfiable, so is the whole."""
    try:
        ctx = z3.Context()
        asserts = z3.parse_smt2_string(text, ctx=ctx)
        s = z3.Solver(ctx=ctx)
        s.set("timeout", max(5_000, min(timeout_ms, 30_000)))
        names = {}
        for i, a in enumerate(asserts):
            b = z3.Bool(f"trk!{i}", ctx=ctx)
            names[str(b)] = a
            s.assert_and_track(a, b)
        if s.check() != z3.unsat:
            return None
        s2 = z3.Solver(ctx=ctx)
        s2.add(*[names[str(c)] for c in s.unsat_core()])
        return s2.to_smt2()
    except z3.Z3Exception:
        return None


def _confirm(text, budget=None):
    """A second opinion on an `unsat` of z3 5.1.0 (which answered `unsat` on a satisfiable query with seq.extract under a quantifier
    during development, see DESIGN §10.13): cvc5 1.0.3 and z3 4.8.12 run side by side on the same text; the first `unsat` confirms,
    a `sat` from either is a disagreement, and the obligation stays undecided in both cases where no `unsat` arrives in time."""
    budget = budget or CONFIRM_S
    key = hashlib.sha1(text.encode()).hexdigest() + str(budget)
    if key in _CONF_MEMO:
        return _CONF_MEMO[key]
    t0 = time.time()
    res = (None, "unconfirmed")
    with tempfile.TemporaryDirectory(prefix="pyvc-c-") as d:
        procs = {}
        if os.path.exists(CVC5):
            q = os.path.join(d, "q.cvc5.smt2")
            with open(q, "w") as f:
                f.write(cvc5_text(text))
            for name, extra in (("cvc5-1.0.3", []), ("cvc5-1.0.3 --cegqi-all", ["--cegqi-all"])):
                procs[name] = subprocess.Popen([CVC5, "--lang=smt2", "--strings-exp", f"--tlimit={budget * 1000}", *extra, q],
                                               stdout=subprocess.PIPE, stderr=subprocess.DEVNULL, text=True)
        if os.path.exists(Z3_OLD):
            q = os.path.join(d, "q.smt2")
            with open(q, "w") as f:
                f.write(text)
            procs["z3-4.8.12"] = subprocess.Popen([Z3_OLD, f"-T:{budget}", q], stdout=subprocess.PIPE, stderr=subprocess.DEVNULL, text=True)
        answers = {}
        while procs and time.time() - t0 < budget + 5:
            for name, pr in list(procs.items()):
                if pr.poll() is not None:
                    words = (pr.stdout.read() or "").split()
                    answers[name] = words[0] if words else "unknown"
                    del procs[name]
            if "unsat" in answers.values() or "sat" in answers.values():
                break
            time.sleep(0.01)
        for pr in procs.values():
            pr.kill()
            pr.wait()
        for verdict in ("sat", "unsat"):        # a disagreement outranks a confirmation
            hit = sorted(n for n, a in answers.items() if a == verdict)
            if hit:
                res = (hit[0].split()[0], verdict)
                break
    res = res + (round(time.time() - t0, 3),)
    _CONF_MEMO[key] = res
    return res


def _check(assertions, timeout_ms, seeds=(0, 7, 23), confirm=True):
    """Solve in a fresh z3 context, from the SMT-LIB text of the assertions: the verdict then does not depend on the internal term
    numbering left behind by VC generation (which varies from run to run with Python's memory management)."""
    s0 = z3.Solver()
    s0.add(*assertions)
    text = s0.to_smt2()
    r = z3.unknown
    for attempt, seed in enumerate(seeds):
        ctx = z3.Context()
        s = z3.Solver(ctx=ctx)
        s.set("rlimit", Z3_RLIMIT)
        s.set("timeout", timeout_ms if attempt == 0 else min(timeout_ms, 20_000))
        s.set("random_seed", seed)
        s.from_string(text)
        r = s.check()
        # 'unknown' is retried with other seeds (quantifier instantiation is heuristic); sat / unsat are final
        if r != z3.unknown or timeout_ms <= 2_000:
            break
    if r == z3.unsat and confirm and CONFIRM:
        res = _confirm(text, min(CONFIRM_S, 4))
        if res[1] == "unconfirmed":         # too big for the second solvers as it stands: hand them the unsat core z3 reports
            t1 = time.time()
            sub = _core_text(text, timeout_ms)
            if sub is not None:
                r2 = _confirm(sub)
                res = (r2[0] and r2[0] + " (on z3's unsat core)", r2[1], round(res[2] + time.time() - t1, 3))
        _CONF.append(res)
        if res[1] != "unsat":       # not confirmed (or contradicted): this query proves nothing; the caller's later stages may still find
            r = z3.unknown          # a formulation both solvers accept
            s = _Unconfirmed(s, res)
    return r, s


class _Unconfirmed:
    """Stands in for the solver object of a query whose `unsat` was not confirmed."""
    def __init__(self, s, res):
        self.s, self.res = s, res

    def reason_unknown(self):
        return ("z3-5.1.0 says unsat, " + (f"{self.res[0]} says sat (solver disagreement)" if self.res[1] == "sat" else
                                          "neither cvc5-1.0.3 nor z3-4.8.12 confirms it within the budget"))

    def to_smt2(self):
        return self.s.to_smt2()


_SK = [0]


def _skolem(sort):
    _SK[0] += 1
    return z3.Const(f"sk!!{_SK[0]}", sort)     # numbered per obligation (reset in solve): names do not depend on the process history


def _nnf_top(g):
    """push a top-level negation inwards (one step at a time; enough for the shapes contracts produce)"""
    while z3.is_not(g):
        x = g.arg(0)
        if z3.is_not(x):
            g = x.arg(0)
        elif z3.is_or(x):
            g = z3.And(*[z3.Not(c) for c in x.children()])
        elif z3.is_and(x):
            g = z3.Or(*[z3.Not(c) for c in x.children()])
        elif z3.is_implies(x):
            g = z3.And(x.arg(0), z3.Not(x.arg(1)))
        elif z3.is_quantifier(x) and x.is_exists():
            vs = [z3.Const(x.var_name(i), x.var_sort(i)) for i in range(x.num_vars())]
            g = z3.ForAll(vs, z3.Not(z3.substitute_vars(x.body(), *reversed(vs))))
        else:
            break
    return g


def _positive_exists(g, out, depth=0):
    """existential subformulas in positive position of g (under Or / the consequent of Implies)"""
    if depth > 4:
        return
    if z3.is_quantifier(g) and g.is_exists() and g.num_vars() == 1 and g.var_sort(0) == z3.IntSort():
        out.append(g)
    elif z3.is_or(g):
        for c in g.children():
            _positive_exists(c, out, depth + 1)
    elif z3.is_implies(g):
        _positive_exists(g.arg(1), out, depth + 1)


def _prove(conds, goal, depth=0, level=1, timeout_ms=None, seeds=(0, 7, 23), ground_only=False, wit_terms=()):
    """(result, solver) for `conds |= goal`.  Universal goals are skolemised here (also below an implication), conjunctive goals are
    discharged conjunct by conjunct, each as its own query with its own instantiation hints."""
    extra = []
    skolems = []
    if depth == 0:
        # conjunctive hypotheses are taken apart (quantified facts inside a conjunction become instantiable);
        # existential hypotheses are replaced by witnesses (named constants, which then serve as instantiation candidates)
        flat = []

        def _flat(c, d=0):
            if z3.is_and(c) and d < 6:
                for ch in c.children():
                    _flat(ch, d + 1)
            else:
                flat.append(c)
        for c in conds:
            _flat(c)
        conds = flat
        conds2 = []
        for c in conds:
            if z3.is_quantifier(c) and c.is_exists():
                ws = [_skolem(c.var_sort(i)) for i in range(c.num_vars())]
                conds2.append(z3.substitute_vars(c.body(), *reversed(ws)))
            else:
                conds2.append(c)
        conds = conds2
    while True:
        goal = _nnf_top(goal)
        if z3.is_quantifier(goal) and goal.is_forall():
            vs = [_skolem(goal.var_sort(i)) for i in range(goal.num_vars())]
            skolems.extend(vs)
            goal = z3.substitute_vars(goal.body(), *reversed(vs))
        elif z3.is_implies(goal) and ((z3.is_quantifier(goal.arg(1)) and goal.arg(1).is_forall()) or z3.is_and(goal.arg(1)) or z3.is_implies(goal.arg(1))):
            # forall i. A(i) -> forall j. B(i, j): assume A at the skolem constant and continue with the inner goal
            extra.append(goal.arg(0))
            goal = goal.arg(1)
        else:
            break
    # help e-matching: the universal hypotheses at the goal's skolem constants
    int_sks = [sk for sk in skolems if z3.is_int(sk)]
    cands2 = [t for sk in int_sks[:3] for t in (sk, sk - 1, sk + 1)]
    for c in conds:
        if z3.is_quantifier(c) and c.is_forall() and c.num_vars() == 1:
            for sk in skolems:
                if sk.sort() == c.var_sort(0):
                    extra.append(z3.substitute_vars(c.body(), sk))
                    if z3.is_int(sk) and level >= 1:          # neighbours too: invariants relate index k with k-1 / k+1
                        extra.append(z3.substitute_vars(c.body(), sk - 1))
                        extra.append(z3.substitute_vars(c.body(), sk + 1))
                        if len(int_sks) > 1:    # nested index structure: inner quantifiers at the goal's indices as well
                            extra.extend(_nested_instances(z3.substitute_vars(c.body(), sk), int_sks[:3]))
        elif level >= 1 and z3.is_quantifier(c) and c.is_forall() and c.num_vars() == 2 and cands2 \
                and c.var_sort(0) == z3.IntSort() and c.var_sort(1) == z3.IntSort():
            # two-index lemmas (monotone allocation counters, pairwise distinct keys) at all pairs of the goal's indices
            for a in cands2:
                for b in cands2:
                    extra.append(z3.substitute_vars(c.body(), a, b))
    # witness terms: an instance may mention f(sk) for an uninterpreted index-valued f (e.g. "the position at which key sk was computed");
    # the index-quantified hypotheses are instantiated there as well
    if skolems:
        wit = {}

        def scan(t, d=0):
            if d > 30 or len(wit) >= 4 or not z3.is_app(t):
                return
            if t.decl().kind() == z3.Z3_OP_UNINTERPRETED and t.num_args() == 1 and z3.is_int(t) and not z3.is_int(t.arg(0)) \
                    and any(z3.eq(t.arg(0), sk) for sk in skolems):
                wit[str(t)] = t
            for ch in t.children():
                scan(ch, d + 1)
        for x in list(extra):
            scan(x)
        for wt in wit.values():
            for c in conds:
                if z3.is_quantifier(c) and c.is_forall() and c.num_vars() == 1 and c.var_sort(0) == z3.IntSort():
                    extra.append(z3.substitute_vars(c.body(), wt))
        wit_terms = list(wit_terms) + list(wit.values())
    else:
        wit_terms = list(wit_terms)
    if level >= 2 and depth == 0:
        # deterministic, bounded stand-in for e-matching over ground terms of the path.  Terms are collected by the ROLE in which they
        # occur — a sequence position  Nth(_, t),  an object reference  H_field[t] / the value of a field, list element or dictionary
        # entry,  a key  Unit(t) / map[t]  — and a universal hypothesis is instantiated only at terms of the role in which it uses its
        # bound variable.  Two rounds: the second one looks into the instances obtained in the first.
        uni = [c for c in conds if z3.is_quantifier(c) and c.is_forall() and c.num_vars() == 1]

        def is_field(a):
            return z3.is_const(a) and a.decl().name().startswith("H_")

        def roles_of(c):
            """roles in which the bound variable of the one-variable hypothesis c is used"""
            mk = z3.Const("role!marker", c.var_sort(0))
            body = z3.substitute_vars(c.body(), mk)
            out = set()

            def w(t, d=0):
                if d > 40 or not z3.is_app(t):
                    if z3.is_quantifier(t):
                        w(t.body(), d + 1)
                    return
                k = t.decl().kind()
                if k == z3.Z3_OP_SEQ_NTH and z3.eq(t.arg(1), mk):
                    out.add("pos")
                if k == z3.Z3_OP_SELECT and z3.eq(t.arg(1), mk):
                    out.add("ref" if is_field(t.arg(0)) else "key")
                if k == z3.Z3_OP_SEQ_UNIT and z3.eq(t.arg(0), mk):
                    out.add("key")
                if k in (z3.Z3_OP_LE, z3.Z3_OP_LT, z3.Z3_OP_GE, z3.Z3_OP_GT) and any(z3.eq(x, mk) for x in t.children()) and z3.is_int(mk) and not out:
                    pass
                for ch in t.children():
                    w(ch, d + 1)
            w(body)
            if not out:
                out.add("pos" if z3.is_int(mk) else "key")
            return out
        uni_roles = [(c, roles_of(c)) for c in uni]
        pool = [c for c in conds if not z3.is_quantifier(c)] + [goal]
        seen_terms = set()
        for _round in range(2):
            found = {}

            def note(role, t):
                if z3.is_int_value(t) or z3.is_string_value(t):
                    return
                key = (role, str(t))
                if len(key[1]) < 400 and key not in seen_terms:
                    found[key] = t

            def grab(t, d=0):
                if d > 40 or not z3.is_app(t):
                    return
                k = t.decl().kind()
                if k == z3.Z3_OP_SEQ_NTH and t.num_args() == 2:
                    note("pos", t.arg(1))
                    if z3.is_int(t):
                        note("ref", t)            # an element of a list of objects
                elif k == z3.Z3_OP_SEQ_UNIT and t.num_args() == 1 and not z3.is_int(t.arg(0)):
                    note("key", t.arg(0))
                elif k == z3.Z3_OP_SELECT and t.num_args() == 2:
                    if is_field(t.arg(0)) and z3.is_int(t.arg(1)):
                        note("ref", t.arg(1))
                        if z3.is_int(t):
                            note("ref", t)        # a reference-valued field (x.parent, ...)
                    elif not z3.is_int(t.arg(1)):
                        note("key", t.arg(1))
                        if z3.is_int(t):
                            note("ref", t)        # the entry of a dictionary
                for ch in t.children():
                    grab(ch, d + 1)
            for x in pool:
                grab(x)
            # the smallest terms first (they are the ones the code itself computes), at most 10 per role and round
            chosen = {}
            for role in ("pos", "ref", "key"):
                items = sorted(((k, v) for k, v in found.items() if k[0] == role), key=lambda kv: len(kv[0][1]))[:10]
                chosen.update(items)
            if os.environ.get("PYVC_DEBUG_TERMS"):
                print("   level-2 round", _round, [(k[0], k[1][:60].replace("\n", " ")) for k in chosen])
            if not chosen:
                break
            seen_terms.update(chosen)
            new = []
            for (role, _), tm in chosen.items():
                for c, roles in uni_roles:
                    if c.var_sort(0) == tm.sort() and role in roles:
                        new.append(z3.substitute_vars(c.body(), tm))
            extra.extend(new)
            pool = new
    if level >= 3 and depth == 0:
        # unfoldings of the recursive specification functions (their DEFINITIONS, instantiated — nothing is assumed): every ground
        # application that occurs in the goal or in the instances gathered so far, and the applications that these unfoldings
        # introduce, two levels deep
        from .sorts import REC_DEFS
        if REC_DEFS:
            seen_apps = set()
            frontier = [goal] + list(extra) + [c for c in conds if not z3.is_quantifier(c)]
            for _lvl in range(2):
                apps = {}

                def find(t, d=0):
                    if d > 40:
                        return
                    if z3.is_quantifier(t):
                        return
                    if z3.is_app(t):
                        nm = t.decl().name()
                        if nm in REC_DEFS and t.num_args() == len(REC_DEFS[nm][1]):
                            key = str(t)
                            if key not in seen_apps and len(key) < 600:
                                apps[key] = t
                        for ch in t.children():
                            find(ch, d + 1)
                for x in frontier:
                    find(x)
                apps = dict(sorted(apps.items(), key=lambda kv: len(kv[0]))[:24])
                if not apps:
                    break
                seen_apps.update(apps)
                new = []
                for t in apps.values():
                    f, params, body = REC_DEFS[t.decl().name()]
                    new.append(t == z3.substitute(body, *[(p, a) for p, a in zip(params, t.children())]))
                extra.extend(new)
                frontier = new
    base = list(conds) + extra
    if z3.is_and(goal) and goal.num_args() > 1 and depth < 4:
        # the conjunction as a whole first (short budget): splitting usually helps, but not always
        chk = [c for c in base if not (ground_only and z3.is_quantifier(c) and c.is_forall())]
        r, s = _check(chk + [z3.Not(goal)], min(timeout_ms or Z3_TIMEOUT_MS, 3_000), seeds=(0,))
        if r != z3.unknown:
            return r, s
        r, s = z3.unsat, None
        for cj in goal.children():
            r, s = _prove(base, cj, depth + 1, level, timeout_ms, seeds, ground_only, wit_terms)
            if r != z3.unsat:
                break
        return r, s
    # existential (sub)goals in positive position: under the negated goal they are universally false; instantiate them at the integer
    # constants of the path (witness candidates)
    pos_ex = []
    _positive_exists(goal, pos_ex)
    if pos_ex:
        cands = {}

        def walk(t, d=0):
            if d > 40 or len(cands) > 24:
                return
            if z3.is_const(t) and t.decl().kind() == z3.Z3_OP_UNINTERPRETED and t.sort() == z3.IntSort():
                cands[str(t)] = t
            if z3.is_app(t):
                for ch in t.children():
                    walk(ch, d + 1)
            elif z3.is_quantifier(t):
                walk(t.body(), d + 1)
        for c in conds:
            walk(c)
        for wt in wit_terms:          # "the position at which key sk sits" is a natural witness
            cands[str(wt)] = wt
        for c in list(cands.values()):
            for w in (c, c + 1):
                for ex in pos_ex:
                    base.append(z3.Not(z3.substitute_vars(ex.body(), w)))
            for h in conds:       # and the universal hypotheses at the same candidates
                if z3.is_quantifier(h) and h.is_forall() and h.num_vars() == 1 and h.var_sort(0) == z3.IntSort():
                    base.append(z3.substitute_vars(h.body(), c))
    if ground_only:
        # only the instances: the quantified hypotheses themselves are left out (weaker hypotheses — sound; no matching loops)
        base = [c for c in base if not (z3.is_quantifier(c) and c.is_forall())]
    return _check(base + [z3.Not(goal)], timeout_ms or Z3_TIMEOUT_MS, seeds)


def solve(ob, use_cvc5=True, fast=False):
    """Sets ob.verdict in {'proved','refuted','unknown'} (for expect='sat': 'reachable'/'vacuous'/'unknown')."""
    t0 = time.time()
    _SK[0] = 0
    del _CONF[:]
    if ob.expect == "unsat":
        # portfolio: the plain query first (short budget), then the version with skolemisation, conjunct splitting and instantiation hints
        r, s = _check(list(ob.conds) + [z3.Not(ob.goal)], min(Z3_TIMEOUT_MS, 2_000), seeds=(0,))
        if r == z3.unknown:      # ... the same query with the quantified hypotheses listed first (the order of the text matters to z3)
            qf = [c for c in ob.conds if z3.is_quantifier(c)] + [c for c in ob.conds if not z3.is_quantifier(c)]
            r, s = _check(qf + [z3.Not(ob.goal)], min(Z3_TIMEOUT_MS, 800), seeds=(0,))
        if r == z3.unknown:      # ... from the instances of the universal hypotheses at the goal's skolem constants alone
            r, s = _prove(list(ob.conds), ob.goal, level=0, timeout_ms=min(Z3_TIMEOUT_MS, 3_000), seeds=(0,), ground_only=True)
            if r == z3.sat:      # (a model of the weakened hypotheses refutes nothing)
                r = z3.unknown
        if r == z3.unknown:      # ... with the universal hypotheses kept and instantiated at the goal's skolem constants only
            r, s = _prove(list(ob.conds), ob.goal, level=0, timeout_ms=min(Z3_TIMEOUT_MS, 5_000), seeds=(0,))
        if r == z3.unknown:      # ... from instances alone again, now also at the sequence positions, keys and object terms of the path
            r, s = _prove(list(ob.conds), ob.goal, level=2, timeout_ms=min(Z3_TIMEOUT_MS, 3_000), seeds=(0,), ground_only=True)
            if r == z3.sat:
                r = z3.unknown
        if r == z3.unknown and fast:
            r, s = _prove(list(ob.conds), ob.goal, level=1, timeout_ms=min(Z3_TIMEOUT_MS, 5_000), seeds=(0,))
        elif r == z3.unknown:    # ... with neighbours, index pairs and nested instances as well, full budget
            late = min(Z3_TIMEOUT_MS, 10_000)      # (the late stages share what is left of a bounded budget: an undecided obligation stays cheap)
            r, s = _prove(list(ob.conds), ob.goal, level=1, timeout_ms=late, seeds=(0,))
            if r == z3.unknown:  # ... the plain query once more, with a larger budget
                r, s = _check(list(ob.conds) + [z3.Not(ob.goal)], min(Z3_TIMEOUT_MS, 30_000), seeds=(0,))
            if r == z3.unknown:  # ... plus the hypotheses instantiated at the sequence positions and dictionary keys of the path (two rounds)
                r, s = _prove(list(ob.conds), ob.goal, level=2, timeout_ms=late, seeds=(0,))
            if r == z3.unknown:  # ... plus instantiated definitions of the recursive specification functions that occur
                r, s = _prove(list(ob.conds), ob.goal, level=3, timeout_ms=late, seeds=(0,))
    else:
        # reachability checks (cover / canary) only have to rule out vacuity: 'unknown' is acceptable, so they get a short budget
        r, s = _check(list(ob.conds), 2_000, confirm=False)
    ob.seconds = time.time() - t0
    ob.backend = "z3-" + z3.get_version_string()
    ob.confirm_seconds = round(sum(c[2] for c in _CONF), 3)
    if r == z3.unsat and ob.expect == "unsat" and CONFIRM:
        ob.backend += " + " + "/".join(sorted({c[0] for c in _CONF if c[1] == "unsat"}))
    if ob.expect == "sat":
        ob.verdict = "reachable" if r == z3.sat else ("vacuous" if r == z3.unsat else "unknown")
        if r == z3.unknown:
            # quantified hypotheses: try without them (weaker hypotheses -> still a sound 'sat' witness
            # only if sat with *all* conds; so leave as unknown)
            pass
        return ob
    if r == z3.unsat:
        ob.verdict = "proved"
        return ob
    if r == z3.sat:
        ob.verdict = "refuted"
        try:
            ob.model = str(s.model())[:4000]
            ob.z3model = s.model()
        except Exception:
            ob.model = None
        return ob
    ob.verdict = "unknown"
    ob.reason = s.reason_unknown()
    if use_cvc5 and not fast and os.path.exists(CVC5) and not isinstance(s, _Unconfirmed):
        # z3 5.1.0 left the last query open: cvc5 may decide it; its `unsat` in turn needs z3 4.8.12 to agree
        try:
            text = s.to_smt2()
            with tempfile.TemporaryDirectory(prefix="pyvc-c-") as d:
                q = os.path.join(d, "q.cvc5.smt2")
                with open(q, "w") as f:
                    f.write(cvc5_text(text))
                t0 = time.time()
                first = _run_solver([CVC5, "--lang=smt2", "--strings-exp", "--tlimit=10000", q], 20)
                if first == "unsat" and CONFIRM:
                    q2 = os.path.join(d, "q.smt2")
                    with open(q2, "w") as f:
                        f.write(text)
                    if _run_solver([Z3_OLD, f"-T:{CONFIRM_S}", q2], CONFIRM_S) != "unsat":
                        first = "unconfirmed"
                        ob.reason = "cvc5-1.0.3 says unsat, z3-4.8.12 does not confirm it within the budget"
            if first == "unsat":
                ob.verdict = "proved"
                ob.backend = "cvc5-1.0.3 + z3-4.8.12" if CONFIRM else "cvc5-1.0.3"
                ob.seconds = time.time() - t0
            elif first == "sat":
                ob.verdict = "refuted"
                ob.backend = "cvc5-1.0.3"
                ob.seconds = time.time() - t0
        except Exception as ex:
            ob.reason = f"{getattr(ob, 'reason', '')}; cvc5: {ex}"
    return ob
