"""pyvc: verification-condition generation for a subset of Python by modular symbolic execution.

One `Interp` verifies one function (ast.FunctionDef / ast.Lambda extracted from /repo) against its
sidecar contract:  callee = contract (never body), loop = invariant, recursion = own contract
(+ variant), heap = per-field SSA arrays over integer references.
"""
import ast
import z3
from .core import Val, Raise, State, Obligation, Unsupported, fresh_const, bound_var, exc_matches
from .sorts import (sort_of, SExp, SList, Tree, S, Q, I, R, B, U, sv, SPEC_FUNCS, tval, divzero,
                    tree_refs_ok, leaf_of, slen)
from . import models, source
from .core import fresh_name as core_fresh_name
from .stmts import StmtMixin

TRUE = z3.BoolVal(True)
FALSE = z3.BoolVal(False)
NONE = Val(z3.IntVal(0), "none")


def vbool(t):
    return Val(t, "bool")


def vint(t):
    return Val(t, "int")


def is_ref(ty):
    return isinstance(ty, tuple) and ty[0] == "ref"


def _quantify(i, rng, f):
    """[forall i. rng -> f] as a list of flat quantifiers: conjunctions are split and an inner universal quantifier is merged into
    one multi-variable quantifier (z3 then infers usable patterns such as Nth(comp(i), j))."""
    if z3.is_and(f):
        return [q for ch in f.children() for q in _quantify(i, rng, ch)]
    ivs = i if isinstance(i, list) else [i]
    if z3.is_quantifier(f) and f.is_forall():
        vs = [bound_var("qv", f.var_sort(k)) for k in range(f.num_vars())]
        body = z3.substitute_vars(f.body(), *reversed(vs))
        if z3.is_implies(body):
            return _quantify(ivs + vs, z3.And(rng, body.arg(0)), body.arg(1))
        return _quantify(ivs + vs, rng, body)
    return [z3.ForAll(ivs, z3.Implies(rng, f))]


class Interp(StmtMixin):
    def __init__(self, fsrc, contract, registry, budget_paths=4000):
        self.f = fsrc
        self.c = contract
        self.registry = registry          # key -> contract dict (callee contracts)
        self.obligations = []
        self.paths = 0
        self.budget_paths = budget_paths
        self.loop_counter = 0
        self.notes = []
        self.spec_mode = 0
        self.dead = []
        self.entry = None
        self.imports = source.module_imports(fsrc.mod)

    # ------------------------------------------------------------------ heap
    def heap_arr(self, st, owner, field, fty):
        key = f"{owner}.{field}"
        if key not in st.heap:
            st.heap[key] = z3.Const(f"H_{owner}_{field}", z3.ArraySort(I, sort_of(fty)))
        return st.heap[key]

    def read_field(self, st, ref, cls, field):
        of = models.field_owner(cls, field)
        if of is None:
            raise Unsupported(f"unknown field {cls}.{field}")
        owner, fty = of
        arr = self.heap_arr(st, owner, field, fty)
        return Val(z3.Select(arr, ref.t), fty)

    def write_field(self, st, ref, cls, field, val, line):
        of = models.field_owner(cls, field)
        if of is None:
            raise Unsupported(f"unknown field {cls}.{field}")
        owner, fty = of
        key = f"{owner}.{field}"
        if not self.spec_mode:
            self.frame_check(st, key, ref.t, line)
        if val.ty in ("pydict", "pyset") or (val.ty == "pylist" and is_ref(fty)):
            val = self.box(st, val, fty)
        elif is_ref(fty) and isinstance(val.ty, tuple) and val.ty[0] == "seq":
            # a list value stored into an object field: a fresh container object (its content is modelled only if the field is a list_ class)
            cls_ = fty[1] if fty[1].startswith("list_") else "opaque"
            d = self.alloc(st, cls_)
            if cls_ != "opaque":
                arr_i = self.heap_arr(st, cls_, "items", models.CLASSES[cls_]["fields"]["items"])
                st.heap[f"{cls_}.items"] = z3.Store(arr_i, d.t, self.coerce(val, models.CLASSES[cls_]["fields"]["items"]).t)
            val = d
        arr = self.heap_arr(st, owner, field, fty)
        st.heap[key] = z3.Store(arr, ref.t, self.coerce(val, fty).t)

    def frame_check(self, st, key, ref_t, line):
        """Every heap write must be inside the function's `modifies` (field listed, and the target is
        one of the permitted refs or an object allocated by this call)."""
        mod = self.c.get("modifies", [])
        allowed = [m for m in mod if m.split("[")[0] == key]
        top0 = st.entry.top if st.entry is not None else st.top
        goal = ref_t > top0  # fresh objects may always be written
        for m in allowed:
            if "[" not in m:
                goal = TRUE
                break
            expr = m[m.index("[") + 1:-1]
            tgt = self.eval_spec(expr, st.entry if st.entry is not None else st, st)
            goal = z3.Or(goal, ref_t == tgt.t)
        self.oblige(st, "frame", f"write {key}", goal, line)

    def alloc(self, st, cls):
        st.top = st.top + 1
        r = Val(st.top, ("ref", cls))
        return r

    # ------------------------------------------------------------------ obligations
    def oblige(self, st, kind, label, goal, line=None, ordinal=None, expect="unsat", info=None):
        if self.spec_mode and kind not in ("dictcomp-distinct", "post", "exc", "inv-init", "inv-pres", "pre@call", "variant", "cover", "canary", "lemma"):
            return
        oid = f"{self.f.key}/{kind}"
        if ordinal is not None:
            oid += f"#{ordinal}"
        ob = Obligation(oid, kind, list(st.conds), goal, line, dict(info or {}, label=label), expect)
        ob.trace = list(st.trace)
        self.obligations.append(ob)

    def fn(self, name):
        """list spec function `name`: its recursive definition, or the uninterpreted twin when the contract hides it"""
        from . import sorts
        if name in self.c.get("opaque_funcs", ()):
            return sorts.OPAQUE_FUNCS[name]
        return getattr(sorts, name)

    def feasible(self, st):
        # path pruning only: the quantifier-free part of the path condition, under a small deterministic resource budget.
        # (pruning less is always sound: an infeasible path that survives only yields obligations with contradictory hypotheses)
        s = z3.Solver()
        s.set("timeout", 300)
        s.set("rlimit", 2_000_000)
        s.add(*[c for c in st.conds if not z3.is_quantifier(c)])
        return s.check() != z3.unsat

    # ------------------------------------------------------------------ coercions
    def coerce(self, v, ty):
        if v.ty == ty:
            return v
        if ty == "real" and v.ty == "int":
            return Val(z3.ToReal(v.t), "real")
        if ty == "real" and v.ty == "bool":
            return Val(z3.If(v.t, z3.RealVal(1), z3.RealVal(0)), "real")
        if v.ty == "tree_value":
            # AnyNode.value: float of a Num leaf, PDDLFunction of a Fn leaf, operator string of an inner node.
            # The cast is guarded by a `cast` obligation emitted by the caller (cast_guard).
            if ty == "real":
                return Val(Tree.v(v.t), "real")
            if ty == "str":
                return Val(Tree.op(v.t), "str")
            if is_ref(ty):
                return Val(Tree.ref(v.t), ty)
        if ty == "slist" and v.ty == "slist_iter":
            return Val(v.t, "slist")                  # a fresh iterator over the list, consumed by the callee
        if ty == "slist" and v.ty == "sexp":
            return Val(SExp.items(v.t), "slist")      # guarded by a `cast` obligation (cast_guard)
        if ty == "str" and v.ty == "sexp":
            return Val(SExp.s(v.t), "str")            # guarded by a `cast` obligation (cast_guard)
        if ty == "sexp" and v.ty == "str":
            return Val(SExp.Atom(v.t), "sexp")
        if ty == "sexp" and v.ty == "slist":
            return Val(SExp.Lst(v.t), "sexp")
        if ty == "sexp" and v.ty == "pylist":
            t = SList.Nil
            for it in v.py:
                t = SList.Snoc(t, self.coerce(it, "sexp").t)
            return Val(SExp.Lst(t), "sexp")
        if ty == "slist" and v.ty == "pylist":
            t = SList.Nil
            for it in v.py:
                t = SList.Snoc(t, self.coerce(it, "sexp").t)
            return Val(t, "slist")
        if is_ref(ty) and v.ty == "none":
            return Val(v.t, ty)
        if is_ref(ty) and is_ref(v.ty):
            return Val(v.t, ty if models.is_subclass(v.ty[1], ty[1]) else v.ty)
        if ty == "int" and is_ref(v.ty):
            return Val(v.t, "int")
        if isinstance(ty, tuple) and ty[0] == "seq" and v.ty == "pylist":
            t = z3.Empty(sort_of(ty))
            for it in v.py:
                t = z3.Concat(t, z3.Unit(self.coerce(it, ty[1]).t))
            return Val(t, ty)
        if isinstance(ty, tuple) and ty[0] == "seq" and is_ref(v.ty):
            return v
        raise Unsupported(f"cannot coerce {v.ty} to {ty}")

    def cast_guard(self, st, v, ty, line=None):
        """Obligation that a dynamically typed AnyNode.value really has the shape it is used at."""
        if v.ty == "sexp" and ty == "slist":
            # an expression handed to a parameter that is iterated as a list of expressions must be a list (not a string)
            self.oblige(st, "cast", "expression used as a list", SExp.is_Lst(v.t), line)
            return
        if v.ty == "sexp" and ty == "str":
            self.oblige(st, "cast", "expression used as a string", SExp.is_Atom(v.t), line)
            return
        if v.ty != "tree_value":
            return
        g = Tree.is_Num(v.t) if ty == "real" else (Tree.is_Op(v.t) if ty == "str" else Tree.is_Fn(v.t))
        self.oblige(st, "cast", f"AnyNode.value used as {ty}", g, line)

    def truthy(self, v, st=None):
        if v.ty == "bool":
            return v.t
        if v.ty == "int":
            return v.t != 0
        if v.ty == "real":
            return v.t != 0
        if v.ty == "str":
            return z3.Length(v.t) > 0
        if v.ty == "none":
            return FALSE
        if is_ref(v.ty):
            cls = v.ty[1]
            if cls == "deque" or cls.startswith("list_"):
                if st is None:
                    raise Unsupported("truthiness of container ref needs heap")
                return z3.Length(self.read_field(st, v, cls, "items").t) > 0
            if cls.startswith("dict_"):
                if st is None:
                    raise Unsupported("truthiness of container ref needs heap")
                return z3.Length(self.read_field(st, v, cls, "keys").t) > 0
            return v.t != 0
        if isinstance(v.ty, tuple) and v.ty[0] == "seq":
            return z3.Length(v.t) > 0
        if v.ty == "pylist":
            return z3.BoolVal(len(v.py) > 0)
        if v.ty == "tree_children":
            return Tree.is_Op(v.t)
        if v.ty == "slist":
            return z3.Not(SList.is_Nil(v.t))
        raise Unsupported(f"truthiness of {v.ty}")

    def seq_of(self, st, v):
        """Sequence content of a list-like value (value sequence or heap container ref)."""
        if isinstance(v.ty, tuple) and v.ty[0] == "seq":
            return v
        if is_ref(v.ty) and (v.ty[1] == "deque" or v.ty[1].startswith("list_") or v.ty[1].startswith("set_")):
            return self.read_field(st, v, v.ty[1], "items")
        if v.ty == "pylist":
            if not v.py:
                raise Unsupported("empty pylist without element type")
            return self.coerce(v, ("seq", v.py[0].ty))
        raise Unsupported(f"seq_of {v.ty}")

    def equal(self, st, a, b):
        """Python == on modelled values (z3 Bool)."""
        if a.ty == "none" or b.ty == "none":
            if a.ty == "none" and b.ty == "none":
                return TRUE
            o = b if a.ty == "none" else a
            if is_ref(o.ty):
                return o.t == 0
            return FALSE
        if a.ty == "sexp" and b.ty == "str":
            return z3.And(SExp.is_Atom(a.t), SExp.s(a.t) == b.t)
        if a.ty == "tree_value" and b.ty == "str":
            return z3.And(Tree.is_Op(a.t), Tree.op(a.t) == b.t)
        if a.ty == "str" and b.ty == "tree_value":
            return self.equal(st, b, a)
        if a.ty == "tree_value" and b.ty in ("int", "real"):
            return z3.And(Tree.is_Num(a.t), Tree.v(a.t) == self.coerce(b, "real").t)
        if a.ty == "str" and b.ty == "sexp":
            return self.equal(st, b, a)
        if a.ty in ("int", "real", "bool") and b.ty in ("int", "real", "bool"):
            if a.ty == b.ty:
                return a.t == b.t
            return self.coerce(a, "real").t == self.coerce(b, "real").t
        if a.ty == "tuple" and b.ty == "tuple":
            if len(a.py) != len(b.py):
                return FALSE
            return z3.And(*[self.equal(st, x, y) for x, y in zip(a.py, b.py)]) if a.py else TRUE
        if is_ref(a.ty) and is_ref(b.ty):
            ca, cb = a.ty[1], b.ty[1]
            if self.spec_mode and not (ca == cb == "PDDLType"):
                return a.t == b.t          # identity in specifications
            if ca == cb == "PDDLType":      # PDDLType.__eq__ compares names (inlined; see class model)
                return self.read_field(st, a, ca, "name").t == self.read_field(st, b, cb, "name").t
            if (ca == "deque" or ca.startswith("list_")) and cb == ca:
                return self.seq_of(st, a).t == self.seq_of(st, b).t
            raise Unsupported(f"== on refs {ca},{cb}")
        if a.ty == b.ty:
            return a.t == b.t
        sa = isinstance(a.ty, tuple) and a.ty[0] == "seq"
        sb = isinstance(b.ty, tuple) and b.ty[0] == "seq"
        if sa or sb:
            x, y = self.seq_of(st, a), self.seq_of(st, b)
            return x.t == y.t
        if a.ty == "slist" and b.ty == "pylist":
            return a.t == self.coerce(b, "slist").t
        if a.ty == "pylist" and b.ty == "slist":
            return self.coerce(a, "slist").t == b.t
        raise Unsupported(f"== between {a.ty} and {b.ty}")

    # ------------------------------------------------------------------ expression evaluation
    def ev(self, e, st):
        """Generator of (state, Val | Raise)."""
        m = getattr(self, "ev_" + type(e).__name__, None)
        if m is None:
            raise Unsupported(f"expression {type(e).__name__} at line {getattr(e, 'lineno', '?')}")
        yield from m(e, st)

    def ev_list(self, es, st):
        """Evaluate expressions left to right; yields (state, [Val]) or (state, Raise)."""
        if not es:
            yield st, []
            return
        for st1, v in self.ev(es[0], st):
            if isinstance(v, Raise):
                yield st1, v
                continue
            for st2, rest in self.ev_list(es[1:], st1):
                if isinstance(rest, Raise):
                    yield st2, rest
                else:
                    yield st2, [v] + rest

    def ev_Constant(self, e, st):
        v = e.value
        if v is None:
            yield st, NONE
        elif isinstance(v, bool):
            yield st, vbool(z3.BoolVal(v))
        elif isinstance(v, int):
            yield st, vint(z3.IntVal(v))
        elif isinstance(v, float):
            yield st, Val(z3.RealVal(repr(v)), "real")
        elif isinstance(v, str):
            yield st, Val(sv(v), "str")
        else:
            raise Unsupported(f"constant {v!r}")

    def ev_Name(self, e, st):
        if e.id in st.env:
            yield st, st.env[e.id]
            return
        if self.spec_mode and e.id == "True":
            yield st, vbool(TRUE)
            return
        g = self.global_name(e.id, st)
        if g is not None:
            yield st, g
            return
        raise Unsupported(f"unbound name {e.id} at line {e.lineno}")

    def global_name(self, name, st):
        if name in self.c.get("globals", {}):
            spec = self.c["globals"][name]
            return self.make_global(name, spec, st)
        # module-level constant (list of strings / string / number) of the function's module
        found, val = source.module_constant(self.f.mod, name)
        if not found and name in self.imports:
            modname, level, orig = self.imports[name]
            base = self.f.mod.rsplit(".", 1)[0] if level else None
            cand = []
            if modname and modname.startswith("pddl_plus_parser."):
                cand.append(modname[len("pddl_plus_parser."):])
            if level and modname:
                cand.append(f"{base}.{modname}")
            for c in cand:
                try:
                    found, val = source.module_constant(c, orig)
                except FileNotFoundError:
                    continue
                if found:
                    break
        if found:
            if isinstance(val, str):
                return Val(sv(val), "str")
            if isinstance(val, bool):
                return vbool(z3.BoolVal(val))
            if isinstance(val, int):
                return vint(z3.IntVal(val))
            if isinstance(val, float):
                return Val(z3.RealVal(repr(val)), "real")
            if isinstance(val, list) and all(isinstance(x, str) for x in val):
                return Val(None, "pylist", [Val(sv(x), "str") for x in val])
            if isinstance(val, ast.Dict):
                return Val(None, "table", (self.f.mod if not name in self.imports else None, name, val))
        return None

    def make_global(self, name, spec, st):
        kind = spec[0]
        if kind == "symbolic":       # module-level number read from the environment at import
            ty, cname, constraint = spec[1], spec[2], spec[3]
            t = z3.Const(cname, sort_of(ty))
            return Val(t, ty)
        if kind == "ref":            # module-level object, a fixed allocated reference
            return Val(z3.Const(spec[2], I), ("ref", spec[1]))
        if kind == "table":
            found, val = source.module_constant(spec[1], name)
            return Val(None, "table", (spec[1], name, val))
        raise Unsupported(f"global spec {spec}")

    def ev_Attribute(self, e, st):
        for st1, base in self.ev(e.value, st):
            if isinstance(base, Raise):
                yield st1, base
                continue
            yield from self.get_attr(st1, base, e.attr, e)

    def get_attr(self, st, base, attr, node):
        line = getattr(node, "lineno", None)
        if base.ty == "none":
            yield st, Raise("AttributeError", line)
            return
        if base.ty == "tree":
            t = base.t
            if attr == "children":
                yield st, Val(t, "tree_children")
                return
            if attr == "is_leaf":
                yield st, vbool(z3.Not(Tree.is_Op(t)))
                return
            if attr == "value":
                yield st, Val(t, "tree_value")
                return
            raise Unsupported(f"AnyNode.{attr}")
        if base.ty == "tree_value":
            self.cast_guard(st, base, ("ref", "PDDLFunction"), line)
            base = Val(Tree.ref(base.t), ("ref", "PDDLFunction"))
        if is_ref(base.ty):
            cls = base.ty[1]
            of = models.field_owner(cls, attr)
            if of is not None:
                # None receiver -> AttributeError
                okst = st
                if not self.c.get("nonnull_receivers", True):
                    pass
                yield okst, self.read_field(st, base, cls, attr)
                return
            # property under contract / modelled property
            prop = self.c.get("calls", {}).get(f"{cls}.{attr}")
            if prop is not None:
                yield from self.call_contract(st, prop, [base], {}, node)
                return
            if cls == "PDDLFunction" and attr == "value":     # @property value -> stored_value (inlined)
                yield st, self.read_field(st, base, cls, "stored_value")
                return
            # bound method
            yield st, Val(None, "bound", (base, attr))
            return
        if base.ty in ("str", "pylist", "slist", "sexp", "iter", "table", "file") or (isinstance(base.ty, tuple) and base.ty[0] == "seq"):
            yield st, Val(None, "bound", (base, attr))
            return
        if base.ty == "module":
            yield st, Val(None, "modattr", (base.py, attr))
            return
        if base.ty == "classobj":
            yield st, Val(None, "static", (base.py, attr))
            return
        raise Unsupported(f"attribute {attr} of {base.ty}")

    def ev_BoolOp(self, e, st):
        is_and = isinstance(e.op, ast.And)

        def go(i, st):
            for st1, v in self.ev(e.values[i], st):
                if isinstance(v, Raise):
                    yield st1, v
                    continue
                if i == len(e.values) - 1:
                    yield st1, v
                    continue
                c = self.truthy(v, st1)
                s_true = st1.assume(c)
                s_false = st1.assume(z3.Not(c))
                cont, stop = (s_true, s_false) if is_and else (s_false, s_true)
                if self.feasible(stop):
                    yield stop, v
                if self.feasible(cont):
                    yield from go(i + 1, cont)
        # when all operands are pure booleans and we are in spec mode, build one formula (no forking)
        if self.spec_mode:
            vals = []
            for sub in e.values:
                res = list(self.ev(sub, st))
                if len(res) != 1 or isinstance(res[0][1], Raise):
                    raise Unsupported("forking/raising operand in specification")
                vals.append(self.truthy(res[0][1]))
            yield st, vbool(z3.And(*vals) if is_and else z3.Or(*vals))
            return
        yield from go(0, st)

    def ev_UnaryOp(self, e, st):
        for st1, v in self.ev(e.operand, st):
            if isinstance(v, Raise):
                yield st1, v
            elif isinstance(e.op, ast.Not):
                yield st1, vbool(z3.Not(self.truthy(v, st1)))
            elif isinstance(e.op, ast.USub):
                yield st1, Val(-v.t, v.ty)
            else:
                raise Unsupported("unary op")

    def ev_IfExp(self, e, st):
        for st1, c in self.ev(e.test, st):
            if isinstance(c, Raise):
                yield st1, c
                continue
            ct = self.truthy(c, st1)
            if self.spec_mode:
                (sa, a), = list(self.ev(e.body, st1))
                (sb, b), = list(self.ev(e.orelse, st1))
                if a.ty != b.ty:
                    b = self.coerce(b, a.ty)
                yield st1, Val(z3.If(ct, a.t, b.t), a.ty)
                continue
            for br, cond in ((e.body, ct), (e.orelse, z3.Not(ct))):
                s2 = st1.assume(cond)
                if self.feasible(s2):
                    yield from self.ev(br, s2)

    def ev_Compare(self, e, st):
        if len(e.ops) != 1:
            # a < b < c  -> only in specs
            if not self.spec_mode:
                raise Unsupported("chained comparison")
            parts = []
            left = e.left
            for op, right in zip(e.ops, e.comparators):
                sub = ast.Compare(left=left, ops=[op], comparators=[right])
                ast.copy_location(sub, e)
                (s1, v), = list(self.ev(sub, st))
                parts.append(v.t)
                left = right
            yield st, vbool(z3.And(*parts))
            return
        op = e.ops[0]
        for st1, vals in self.ev_list([e.left, e.comparators[0]], st):
            if isinstance(vals, Raise):
                yield st1, vals
                continue
            a, b = vals
            yield from self.compare(st1, op, a, b, e)

    def compare(self, st, op, a, b, node):
        if isinstance(op, (ast.Eq, ast.NotEq)):
            t = self.equal(st, a, b)
            yield st, vbool(t if isinstance(op, ast.Eq) else z3.Not(t))
        elif isinstance(op, (ast.Is, ast.IsNot)):
            if a.ty == "none" or b.ty == "none" or (is_ref(a.ty) and is_ref(b.ty)):
                o, n = (a, b) if b.ty == "none" else (b, a)
                if n.ty == "none" and not is_ref(o.ty) and o.ty != "none":
                    t = FALSE
                else:
                    t = a.t == b.t
            else:
                raise Unsupported("is on non-references")
            yield st, vbool(t if isinstance(op, ast.Is) else z3.Not(t))
        elif isinstance(op, (ast.Lt, ast.LtE, ast.Gt, ast.GtE)):
            if a.ty not in ("int", "real") or b.ty not in ("int", "real"):
                raise Unsupported(f"ordering on {a.ty},{b.ty}")
            if a.ty != b.ty:
                a, b = self.coerce(a, "real"), self.coerce(b, "real")
            t = {ast.Lt: a.t < b.t, ast.LtE: a.t <= b.t, ast.Gt: a.t > b.t, ast.GtE: a.t >= b.t}[type(op)]
            yield st, vbool(t)
        elif isinstance(op, (ast.In, ast.NotIn)):
            t = self.contains(st, b, a)
            yield st, vbool(t if isinstance(op, ast.In) else z3.Not(t))
        else:
            raise Unsupported("comparison operator")

    def contains(self, st, container, item):
        if container.ty == "pylist":
            if not container.py:
                return FALSE
            return z3.Or(*[self.equal(st, item, x) for x in container.py])
        if container.ty == "str" and item.ty == "str":
            return z3.Contains(container.t, item.t)
        if container.ty == "table":
            keys = [k.value for k in container.py[2].keys]
            return z3.Or(*[self.equal(st, item, Val(sv(k), "str")) for k in keys])
        if is_ref(container.ty) and container.ty[1].startswith("dict_"):
            ks = self.read_field(st, container, container.ty[1], "keys")
            if item.ty == "sexp":
                return z3.And(SExp.is_Atom(item.t), z3.Contains(ks.t, z3.Unit(SExp.s(item.t))))
            return z3.Contains(ks.t, z3.Unit(item.t))
        if (isinstance(container.ty, tuple) and container.ty[0] == "seq") or is_ref(container.ty):
            s = self.seq_of(st, container)
            return z3.Contains(s.t, z3.Unit(self.coerce(item, s.ty[1]).t))
        raise Unsupported(f"`in` on {container.ty}")

    def ev_BinOp(self, e, st):
        for st1, vals in self.ev_list([e.left, e.right], st):
            if isinstance(vals, Raise):
                yield st1, vals
                continue
            a, b = vals
            yield from self.binop(st1, e.op, a, b, e)

    def binop(self, st, op, a, b, node):
        line = getattr(node, "lineno", None)
        num = ("int", "real", "bool")
        if a.ty in num and b.ty in num:
            if isinstance(op, ast.Div):
                x, y = self.coerce(a, "real"), self.coerce(b, "real")
                if self.spec_mode:
                    yield st, Val(x.t / y.t, "real")
                    return
                s0 = st.assume(y.t == 0)
                if self.feasible(s0):
                    yield s0, Raise("ZeroDivisionError", line)
                s1 = st.assume(y.t != 0)
                if self.feasible(s1):
                    yield s1, Val(x.t / y.t, "real")
                return
            ty = "int" if (a.ty != "real" and b.ty != "real") else "real"
            x, y = self.coerce(a, ty) if a.ty != "bool" else a, self.coerce(b, ty) if b.ty != "bool" else b
            if a.ty == "bool":
                x = Val(z3.If(a.t, 1, 0), "int")
                x = self.coerce(x, ty)
            if b.ty == "bool":
                y = Val(z3.If(b.t, 1, 0), "int")
                y = self.coerce(y, ty)
            if isinstance(op, ast.Add):
                yield st, Val(x.t + y.t, ty)
            elif isinstance(op, ast.Sub):
                yield st, Val(x.t - y.t, ty)
            elif isinstance(op, ast.Mult):
                yield st, Val(x.t * y.t, ty)
            elif isinstance(op, (ast.Mod, ast.FloorDiv)) and ty == "int" and isinstance(getattr(node, "right", None), ast.Constant) \
                    and isinstance(node.right.value, int) and node.right.value > 0:
                # integer % / // by a positive constant: Python's floor semantics coincide with SMT-LIB's (remainder in [0, k))
                yield st, Val(x.t % y.t if isinstance(op, ast.Mod) else x.t / y.t, "int")
            else:
                raise Unsupported("numeric operator")
            return
        if isinstance(op, ast.Add):
            if a.ty == "str" and b.ty == "str":
                yield st, Val(z3.Concat(a.t, b.t), "str")
                return
            if a.ty == "pylist" and b.ty == "pylist":
                yield st, Val(None, "pylist", a.py + b.py)
                return
            # sequence concatenation (specs mostly)
            try:
                if a.ty == "pylist":
                    sb = self.seq_of(st, b)
                    sa = self.coerce(a, sb.ty) if a.py else Val(z3.Empty(sort_of(sb.ty)), sb.ty)
                elif b.ty == "pylist":
                    sa = self.seq_of(st, a)
                    sb = self.coerce(b, sa.ty) if b.py else Val(z3.Empty(sort_of(sa.ty)), sa.ty)
                else:
                    sa, sb = self.seq_of(st, a), self.seq_of(st, b)
            except Unsupported:
                raise
            yield st, Val(z3.Concat(sa.t, sb.t), sa.ty)
            return
        raise Unsupported(f"binary op {type(op).__name__} on {a.ty},{b.ty}")

    def ev_Tuple(self, e, st):
        for st1, vals in self.ev_list(e.elts, st):
            if isinstance(vals, Raise):
                yield st1, vals
            else:
                yield st1, Val(None, "tuple", vals)

    def ev_List(self, e, st):
        for st1, vals in self.ev_list(e.elts, st):
            if isinstance(vals, Raise):
                yield st1, vals
            else:
                yield st1, Val(None, "pylist", vals)

    def ev_Dict(self, e, st):
        # a dict display: a Python-level value until it is stored into a typed field or variable (see `box`)
        if any(k is None for k in e.keys):
            raise Unsupported("dict display with ** unpacking")
        for st1, vals in self.ev_list(list(e.keys) + list(e.values), st):
            if isinstance(vals, Raise):
                yield st1, vals
            else:
                n = len(e.keys)
                yield st1, Val(None, "pydict", list(zip(vals[:n], vals[n:])))

    def ev_Set(self, e, st):
        for st1, vals in self.ev_list(e.elts, st):
            if isinstance(vals, Raise):
                yield st1, vals
            else:
                yield st1, Val(None, "pyset", vals)

    def box(self, st, v, want):
        """A container display (dict / set / list literal) stored where a heap container of class want[1] is expected:
        a fresh heap object holding exactly the listed entries."""
        cls = want[1]
        d = self.alloc(st, cls)
        if cls == "opaque":
            return d
        saved, self.spec_mode = self.spec_mode, 1          # initialising writes to the fresh object
        try:
            fields = models.CLASSES[cls]["fields"]
            if v.ty == "pydict":
                if "keys" not in fields:
                    raise Unsupported(f"dict display stored as {cls}")
                kty, mty = fields["keys"], fields["map"]
                ks = z3.Empty(sort_of(kty))
                mp = fresh_const("dlit", sort_of(mty))
                for a, (kv, _) in enumerate(v.py):
                    for kv2, _ in v.py[a + 1:]:
                        if not z3.is_false(z3.simplify(self.coerce(kv, kty[1]).t == self.coerce(kv2, kty[1]).t)):
                            raise Unsupported("dict display whose keys are not syntactically distinct")
                for kv, vv in v.py:
                    kt = self.coerce(kv, kty[1]).t
                    ks = z3.Concat(ks, z3.Unit(kt)) if v.py else ks
                    mp = z3.Store(mp, kt, self.coerce(vv, mty[2]).t)
                self.write_field(st, d, cls, "keys", Val(ks, kty), None)
                self.write_field(st, d, cls, "map", Val(mp, mty), None)
            else:
                if "items" not in fields:
                    raise Unsupported(f"{v.ty} display stored as {cls}")
                ity = fields["items"]
                t = z3.Empty(sort_of(ity))
                for it in v.py:
                    t = z3.Concat(t, z3.Unit(self.coerce(it, ity[1]).t))
                self.write_field(st, d, cls, "items", Val(t, ity), None)
        finally:
            self.spec_mode = saved
        return d

    def ev_JoinedStr(self, e, st):
        # f-string: only supported when every piece is a str-typed value (or constant)
        parts = []
        exprs = []
        for v in e.values:
            if isinstance(v, ast.Constant):
                exprs.append(v)
            elif isinstance(v, ast.FormattedValue) and v.format_spec is None and v.conversion == -1:
                exprs.append(v.value)
            else:
                raise Unsupported("f-string format spec")
        for st1, vals in self.ev_list(exprs, st):
            if isinstance(vals, Raise):
                yield st1, vals
                continue
            t = sv("")
            for x in vals:
                if x.ty != "str":
                    raise Unsupported(f"f-string of {x.ty}")
                t = z3.Concat(t, x.t)
            yield st1, Val(t, "str")

    def ev_Subscript(self, e, st):
        for st1, base in self.ev(e.value, st):
            if isinstance(base, Raise):
                yield st1, base
                continue
            if isinstance(e.slice, ast.Slice):
                yield from self.slice(st1, base, e.slice, e)
                continue
            for st2, idx in self.ev(e.slice, st1):
                if isinstance(idx, Raise):
                    yield st2, idx
                    continue
                yield from self.index(st2, base, idx, e)

    def index(self, st, base, idx, node):
        line = getattr(node, "lineno", None)
        if base.ty in ("sexp", "slist") and isinstance(node.slice, ast.Constant) and node.slice.value == 0:
            sfirst = self.fn("sfirst")
            if base.ty == "sexp":
                # x[0] of an atom is its first character (Python): a one-character atom
                s_atom = st.assume(SExp.is_Atom(base.t))
                if self.feasible(s_atom):
                    n0 = z3.Length(SExp.s(base.t))
                    s_e = s_atom.assume(n0 == 0)
                    if self.feasible(s_e):
                        yield s_e, Raise("IndexError", line)
                    s_c = s_atom.assume(n0 > 0)
                    if self.feasible(s_c):
                        yield s_c, Val(SExp.Atom(z3.SubString(SExp.s(base.t), 0, 1)), "sexp")
                st = st.assume(SExp.is_Lst(base.t))
                if not self.feasible(st):
                    return
                items = SExp.items(base.t)
            else:
                items = base.t
            s_bad = st.assume(SList.is_Nil(items))
            if self.feasible(s_bad):
                yield s_bad, Raise("IndexError", line)
            s_ok = st.assume(z3.Not(SList.is_Nil(items)))
            if self.feasible(s_ok):
                yield s_ok, Val(sfirst(items), "sexp")
            return
        if base.ty in ("sexp", "slist") and idx.ty == "int":
            # l[i] at a non-negative (symbolic) position of a parsed expression list: snth; an atom indexed like this is a string
            snth, slen = self.fn("snth"), self.fn("slen")
            if base.ty == "sexp":
                if self.spec_mode:
                    yield st, Val(snth(SExp.items(base.t), idx.t), "sexp")
                    return
                s_atom = st.assume(SExp.is_Atom(base.t))
                if self.feasible(s_atom):
                    raise Unsupported("symbolic index into something that may be an atom (string)")
                st = st.assume(SExp.is_Lst(base.t))
                items = SExp.items(base.t)
            else:
                items = base.t
            if self.spec_mode:
                yield st, Val(snth(items, idx.t), "sexp")
                return
            s_neg = st.assume(idx.t < 0)
            if self.feasible(s_neg):
                raise Unsupported("possibly negative index into an expression list")
            s_bad = st.assume(idx.t >= slen(items))
            if self.feasible(s_bad):
                yield s_bad, Raise("IndexError", line)
            s_ok = st.assume(z3.And(idx.t >= 0, idx.t < slen(items)))
            if self.feasible(s_ok):
                yield s_ok, Val(snth(items, idx.t), "sexp")
            return
        if base.ty == "tree_children":
            # anytree children tuple: Op has exactly two children, leaves none
            if not isinstance(node.slice, ast.Constant) or node.slice.value not in (0, 1):
                raise Unsupported("children index")
            s_bad = st.assume(z3.Not(Tree.is_Op(base.t)))
            if self.feasible(s_bad):
                yield s_bad, Raise("IndexError", line)
            s_ok = st.assume(Tree.is_Op(base.t))
            if self.feasible(s_ok):
                yield s_ok, Val(Tree.l(base.t) if node.slice.value == 0 else Tree.r(base.t), "tree")
            return
        if base.ty == "table":
            yield from self.table_lookup(st, base, idx, node)
            return
        if base.ty == "pylist":
            if isinstance(node.slice, ast.Constant) and isinstance(node.slice.value, int):
                k = node.slice.value
                if -len(base.py) <= k < len(base.py):
                    yield st, base.py[k]
                else:
                    yield st, Raise("IndexError", line)
                return
            raise Unsupported("symbolic index into python list")
        if base.ty == "tuple":
            if isinstance(node.slice, ast.Constant):
                yield st, base.py[node.slice.value]
                return
            raise Unsupported("symbolic tuple index")
        if isinstance(base.ty, tuple) and base.ty[0] == "tuple" and isinstance(node.slice, ast.Constant):
            dt = sort_of(base.ty)
            k = node.slice.value
            yield st, Val(dt.accessor(0, k)(base.t), base.ty[1][k])
            return
        if is_ref(base.ty) and base.ty[1].startswith("dict_"):
            cls = base.ty[1]
            ks = self.read_field(st, base, cls, "keys")
            mp = self.read_field(st, base, cls, "map")
            key = idx
            if key.ty == "sexp":
                s_un = st.assume(z3.Not(SExp.is_Atom(key.t)))
                if self.feasible(s_un):
                    yield s_un, Raise("TypeError", line)
                st = st.assume(SExp.is_Atom(key.t))
                key = Val(SExp.s(key.t), "str")
            present = z3.Contains(ks.t, z3.Unit(key.t))
            if self.spec_mode:
                vty = mp.ty[2]
                vty = ("ref", models.CLASSES[cls].get("elem") or self.c.get("dict_values", {}).get(cls, "opaque")) if vty == "int" else vty
                yield st, Val(z3.Select(mp.t, key.t), vty)
                return
            s_no = st.assume(z3.Not(present))
            if self.feasible(s_no):
                yield s_no, Raise("KeyError", line)
            s_yes = st.assume(present)
            if self.feasible(s_yes):
                vty = mp.ty[2]
                vty = ("ref", models.CLASSES[cls].get("elem") or self.c.get("dict_values", {}).get(cls, "opaque")) if vty == "int" else vty
                yield s_yes, Val(z3.Select(mp.t, key.t), vty)
            return
        if (isinstance(base.ty, tuple) and base.ty[0] == "seq") or (is_ref(base.ty) and (base.ty[1] == "deque" or base.ty[1].startswith("list_"))):
            s = self.seq_of(st, base)
            n = z3.Length(s.t)
            i = idx.t
            if self.spec_mode:
                yield st, Val(s.t[i], s.ty[1])       # specifications index totally (guarded by their own ranges)
                return
            inb = z3.And(i >= -n, i < n)
            s_bad = st.assume(z3.Not(inb))
            if self.feasible(s_bad):
                yield s_bad, Raise("IndexError", line)
            s_ok = st.assume(inb)
            if self.feasible(s_ok):
                pos = z3.If(i >= 0, i, n + i)
                if isinstance(node.slice, ast.Constant) and isinstance(node.slice.value, int) and node.slice.value >= 0:
                    pos = i
                yield s_ok, Val(s.t[pos], s.ty[1])
            return
        if base.ty == "str":
            n = z3.Length(base.t)
            i = idx.t
            inb = z3.And(i >= -n, i < n)
            s_bad = st.assume(z3.Not(inb))
            if self.feasible(s_bad):
                yield s_bad, Raise("IndexError", line)
            s_ok = st.assume(inb)
            if self.feasible(s_ok):
                pos = z3.If(i >= 0, i, n + i)
                yield s_ok, Val(z3.SubString(base.t, pos, 1), "str")
            return
        raise Unsupported(f"index into {base.ty}")

    def slice(self, st, base, sl, node):
        if sl.step is not None:
            raise Unsupported("slice step")

        def bound(b):
            if b is None:
                return None
            if isinstance(b, ast.Constant) and isinstance(b.value, int):
                return b.value
            if isinstance(b, ast.UnaryOp) and isinstance(b.op, ast.USub) and isinstance(b.operand, ast.Constant):
                return -b.operand.value
            raise Unsupported("non-constant slice bound")
        lo, hi = bound(sl.lower), bound(sl.upper)
        if base.ty in ("sexp", "slist") and lo == 1 and hi is None:
            srest = self.fn("srest")
            if base.ty == "sexp":
                s_atom = st.assume(SExp.is_Atom(base.t))
                if self.feasible(s_atom):
                    yield s_atom, Val(SExp.Atom(z3.SubString(SExp.s(base.t), 1, z3.Length(SExp.s(base.t)))), "sexp")
                st = st.assume(SExp.is_Lst(base.t))
                if not self.feasible(st):
                    return
                yield st, Val(srest(SExp.items(base.t)), "slist")
            else:
                yield st, Val(srest(base.t), "slist")
            return
        if base.ty == "pylist":
            yield st, Val(None, "pylist", base.py[lo:hi])
            return
        if base.ty == "str" or (isinstance(base.ty, tuple) and base.ty[0] == "seq") or is_ref(base.ty):
            s = base if base.ty == "str" else self.seq_of(st, base)
            n = z3.Length(s.t)

            def norm(b, default):
                if b is None:
                    return default
                if b >= 0:
                    return z3.If(n < b, n, z3.IntVal(b))
                return z3.If(n + b < 0, z3.IntVal(0), n + b)
            a = norm(lo, z3.IntVal(0))
            b = norm(hi, n)
            ln = z3.If(b - a > 0, b - a, 0)
            ext = z3.SubString(s.t, a, ln) if base.ty == "str" else z3.SubSeq(s.t, a, ln)
            if base.ty != "str" and not self.spec_mode:
                # a named slice with its index-level meaning stated explicitly (quantified facts about positions instantiate on it)
                sl = fresh_const("slice", s.t.sort())
                k = bound_var("k", I)
                st = st.assume(sl == ext).assume(z3.Length(sl) == ln)
                st = st.assume(z3.ForAll([k], z3.Implies(z3.And(k >= 0, k < ln), sl[k] == s.t[a + k]), patterns=[sl[k]]))
                ext = sl
            yield st, Val(ext, s.ty)
            return
        raise Unsupported(f"slice of {base.ty}")

    def table_lookup(self, st, table, idx, node):
        line = getattr(node, "lineno", None)
        mod, name, d = table.py
        keys = [k.value for k in d.keys]
        tmod = mod or self.table_module(name)
        for k, v in zip(keys, d.values):
            s1 = st.assume(self.equal(st, idx, Val(sv(k), "str")))
            if self.feasible(s1):
                if isinstance(v, ast.Lambda):
                    yield s1, Val(None, "lambda", (tmod, name, k, v))
                elif isinstance(v, ast.Name):
                    yield s1, Val(None, "funcname", (tmod, v.id))
                else:
                    raise Unsupported("table value")
        s_no = st.assume(z3.Not(z3.Or(*[self.equal(st, idx, Val(sv(k), "str")) for k in keys])))
        if self.feasible(s_no):
            yield s_no, Raise("KeyError", line)

    def table_module(self, name):
        if name in self.imports:
            modname, level, orig = self.imports[name]
            if modname and modname.startswith("pddl_plus_parser."):
                return modname[len("pddl_plus_parser."):]
        return self.f.mod

    def ev_Lambda(self, e, st):
        yield st, Val(None, "lambda", (self.f.mod, None, None, e))

    def ev_ListComp(self, e, st):
        yield from self.comprehension(e, st, "list")

    def ev_GeneratorExp(self, e, st):
        yield from self.comprehension(e, st, "list")

    def indexed_eval(self, st1, i, n, s2, exprs, line=None):
        """Evaluate `exprs` at the symbolic index i (0 <= i < n) of a comprehension, in state s2 (= st1 + range + bound targets).
        Allocation and heap initialisation inside the element expression are threaded through the iterations:
          topf(k) = allocation counter after iteration k;  iteration k starts from topf(k-1) (st1.top for k = 0);
          every value created inside (results of contract calls, havoc) is a skolem function of i (core.INDEX_STACK).
        Yields ("raise", state, Raise) for raising outcomes and ("ok", state_after_all, [Val...]) for the normal one."""
        from . import core
        base_top = st1.top
        outer = list(core.INDEX_STACK)
        _tf = z3.Function(core.fresh_name("topf"), *([I] * (len(outer) + 1)), I)
        topf = lambda k: _tf(*outer, k)       # per enclosing iteration: allocation counter after this comprehension's iteration k
        start_top = z3.If(i <= 0, base_top, topf(i - 1))
        s2.top = start_top
        s2.conds.append(start_top >= base_top)       # (induction hypothesis of the monotonicity lemma stated below: earlier iterations only allocate)
        base_len = len(s2.conds)
        base_heap = dict(s2.heap)
        core.INDEX_STACK.append(i)
        try:
            res = list(self.ev_list(list(exprs), s2))
        finally:
            core.INDEX_STACK.pop()
        self._comp_summary, self._comp_bounds = [], None     # per-iteration initialising writes / allocation bounds (for callers)
        normals = [(sx, v) for sx, v in res if not isinstance(v, Raise)]
        for sx, v in res:
            if isinstance(v, Raise):
                sr = st1.fork()
                sr.conds.extend(sx.conds[len(st1.conds):])      # some index raises (i is a witness constant here)
                if self.feasible(sr):
                    yield "raise", sr, v
        if not normals:
            return
        if len(normals) != 1:
            raise Unsupported("forking element expression in a comprehension over a symbolic sequence")
        sx, vals = normals[0]
        rng = z3.And(i >= 0, i < n)
        s3 = st1.fork()
        guard = sx.conds[base_len:]
        for gc in guard:
            s3.conds.extend(_quantify(i, rng, gc))
        allocates = not z3.eq(sx.top, start_top)
        changed = []
        for k in sx.heap:
            if k not in base_heap:
                # heap arrays are created lazily on first access: adopt the (index independent) base array
                arr = sx.heap[k]
                while z3.is_app_of(arr, z3.Z3_OP_STORE):
                    arr = arr.arg(0)
                base_heap[k] = arr
                s3.heap[k] = arr
            if not z3.eq(sx.heap[k], base_heap[k]):
                changed.append(k)
        if allocates or changed:
            j = bound_var("cj", I)
            s3.conds.append(z3.ForAll([i], z3.Implies(rng, topf(i) == sx.top)))
            # lemma (by induction, each iteration only allocates): the counter is monotone
            s3.conds.append(z3.ForAll([i], z3.Implies(rng, z3.And(topf(i) >= start_top, topf(i) >= base_top))))
            s3.conds.append(z3.ForAll([i, j], z3.Implies(z3.And(i >= 0, i <= j, j < n), topf(i) <= topf(j))))
            s3.top = fresh_const("topc", I)          # a name for the counter after the comprehension keeps later terms small
            s3.conds.append(s3.top == z3.If(n <= 0, base_top, topf(n - 1)))
            s3.conds.append(s3.top >= base_top)
            s3.conds.append(z3.ForAll([i], z3.Implies(rng, topf(i) <= s3.top)))      # (instance j = n-1 of the monotonicity lemma)
            for k in changed:
                arr = sx.heap[k]
                stores = []
                while z3.is_app_of(arr, z3.Z3_OP_STORE) and not z3.eq(arr, base_heap[k]):
                    stores.append((arr.arg(1), arr.arg(2)))
                    arr = arr.arg(0)
                if not z3.eq(arr, base_heap[k]):
                    raise Unsupported(f"heap field {k} is havocked inside a comprehension element")
                owner, field = k.split(".")
                hn = fresh_const("H_" + k.replace(".", "_"), base_heap[k].sort())    # (depends on the enclosing indices, if any)
                x = bound_var("cx", I)
                s3.conds.append(z3.ForAll([x], z3.Implies(x <= base_top, z3.Select(hn, x) == z3.Select(base_heap[k], x))))
                for addr, val in stores:
                    # the element expression may only initialise objects it allocated itself
                    self.oblige(st1, "frame", f"write to {k} inside a comprehension targets an object allocated by that iteration",
                                z3.ForAll([i], z3.Implies(z3.And(rng, *guard), addr > start_top)), line)
                    s3.conds.append(z3.ForAll([i], z3.Implies(rng, z3.Select(hn, addr) == val)))
                    self._comp_summary.append((hn, addr, val))
                s3.heap[k] = hn
            self._comp_bounds = (start_top, topf(i), base_top, s3.top)
        yield "ok", s3, vals

    def ev_DictComp(self, e, st):
        """{kexpr: vexpr for (k, v) in d.items()} / for x in seq — a dict *value*: (key sequence, key -> value array).
        The keys must be pairwise distinct (obligation `dictcomp-distinct`), otherwise 'last wins' would need modelling."""
        if len(e.generators) != 1 or e.generators[0].ifs:
            raise Unsupported("dict comprehension shape")
        g = e.generators[0]
        it_expr = g.iter
        items_of = None
        if isinstance(it_expr, ast.Call) and isinstance(it_expr.func, ast.Attribute) and it_expr.func.attr == "items" and not it_expr.args:
            items_of = it_expr.func.value
        zip_args = None
        if isinstance(it_expr, ast.Call) and isinstance(it_expr.func, ast.Name) and it_expr.func.id == "zip" and len(it_expr.args) == 2:
            zip_args = it_expr.args
        first_expr = items_of if items_of is not None else (ast.Tuple(elts=list(zip_args), ctx=ast.Load()) if zip_args else it_expr)
        for st1, it in self.ev(first_expr, st):
            if isinstance(it, Raise):
                yield st1, it
                continue
            i = bound_var("di", I)
            if zip_args:
                def as_seq(v):
                    if is_ref(v.ty) and v.ty[1].startswith("dict_"):
                        return self.read_field(st1, v, v.ty[1], "keys")
                    return self.seq_of(st1, v)
                sa, sb = as_seq(it.py[0]), as_seq(it.py[1])
                la, lb = z3.Length(sa.t), z3.Length(sb.t)
                n = z3.If(la <= lb, la, lb)
                s2 = st1.assume(z3.And(i >= 0, i < n))
                if not (isinstance(g.target, ast.Tuple) and len(g.target.elts) == 2):
                    raise Unsupported("zip target")
                s2.env[g.target.elts[0].id] = Val(sa.t[i], sa.ty[1])
                s2.env[g.target.elts[1].id] = Val(sb.t[i], sb.ty[1])
            elif items_of is not None:
                if not (is_ref(it.ty) and it.ty[1].startswith("dict_")):
                    raise Unsupported("items() of a non-dict")
                ks = self.read_field(st1, it, it.ty[1], "keys")
                mp = self.read_field(st1, it, it.ty[1], "map")
                n = z3.Length(ks.t)
                s2 = st1.assume(z3.And(i >= 0, i < n))
                if not (isinstance(g.target, ast.Tuple) and len(g.target.elts) == 2):
                    raise Unsupported("items() target")
                vty = mp.ty[2]
                vty = ("ref", models.CLASSES[it.ty[1]].get("elem") or self.c.get("dict_values", {}).get(it.ty[1], "opaque")) if vty == "int" else vty
                s2.env[g.target.elts[0].id] = Val(ks.t[i], ks.ty[1])
                s2.env[g.target.elts[1].id] = Val(z3.Select(mp.t, ks.t[i]), vty)
            else:
                sq = self.seq_of(st1, it)
                n = z3.Length(sq.t)
                s2 = st1.assume(z3.And(i >= 0, i < n))
                s2.env[g.target.id] = Val(sq.t[i], sq.ty[1])
            outcome = None
            for kind_, sy, payload in self.indexed_eval(st1, i, n, s2, [e.key, e.value], getattr(e, "lineno", None)):
                if kind_ == "raise":
                    yield sy, payload
                else:
                    outcome = (sy, payload)
            if outcome is None:
                continue
            st1, (kv, vv) = outcome
            rk = fresh_const("dk", z3.SeqSort(kv.t.sort()))
            rm = fresh_const("dm", z3.ArraySort(kv.t.sort(), vv.t.sort()))
            rng = z3.And(i >= 0, i < n)
            identity_copy = items_of is not None and z3.eq(kv.t, ks.t[i]) and z3.eq(vv.t, z3.Select(mp.t, ks.t[i]))
            same_keys = items_of is not None and z3.eq(kv.t, ks.t[i])
            dup_mode = bool(self.c.get("dictcomp_duplicates")) and items_of is None and not zip_args and z3.eq(kv.t, sq.t[i])
            if dup_mode:
                # {x: f(x) for x in seq} where seq may repeat an element: the keys are the members of seq; the entry of a key is the value
                # computed at SOME position holding that key (Python: the last one; which one is left open — an over-approximation)
                rk = sq.t
                x = bound_var("dx", kv.t.sort())
                w = z3.Function(core_fresh_name("dw"), kv.t.sort(), I)
                s3 = st1.assume(z3.ForAll([x], z3.Implies(z3.Contains(sq.t, z3.Unit(x)),
                                                          z3.And(w(x) >= 0, w(x) < n, sq.t[w(x)] == x,
                                                                 z3.Select(rm, x) == z3.substitute(vv.t, (i, w(x))))),
                                          patterns=[z3.Select(rm, x)]))      # (triggered by a lookup only: no matching loop with the next fact)
                s3 = s3.assume(z3.ForAll([i], z3.Implies(rng, z3.Contains(sq.t, z3.Unit(sq.t[i]))), patterns=[sq.t[i]]))
                # the same facts composed with the witness position, keyed by the key: what the object stored under x looks like
                member = z3.Contains(sq.t, z3.Unit(x))
                sub = lambda t: z3.substitute(t, (i, w(x)))
                for hn_, addr_, val_ in self._comp_summary:
                    s3 = s3.assume(z3.ForAll([x], z3.Implies(member, z3.Select(hn_, sub(addr_)) == sub(val_)), patterns=[z3.Select(rm, x)]))
                if self._comp_bounds is not None:
                    st_i, end_i, base_t, final_t = self._comp_bounds
                    s3 = s3.assume(z3.ForAll([x], z3.Implies(member, z3.And(sub(st_i) >= base_t, sub(end_i) <= final_t, sub(end_i) >= sub(st_i))),
                                             patterns=[z3.Select(rm, x)]))
            if identity_copy:
                # {k: v for k, v in d.items()}: a copy — same key sequence, same content (no fresh sequence to reason about)
                rk, rm = ks.t, mp.t
            elif same_keys:
                rk = ks.t       # {k: f(k, v) for k, v in d.items()}: the key sequence is the source's
            # distinct keys: kexpr(i) != kexpr(j) for i != j
            j = bound_var("dj", I)
            kj = z3.substitute(kv.t, (i, j))
            if not dup_mode:
                self.oblige(st1, "dictcomp-distinct", "keys produced by the dict comprehension are pairwise distinct",
                            z3.ForAll([i, j], z3.Implies(z3.And(rng, j >= 0, j < n, i != j), kv.t != kj)), getattr(e, "lineno", None))
                s3 = st1.assume(z3.Length(rk) == n)
            if not identity_copy and not dup_mode:
                s3 = s3.assume(z3.ForAll([i], z3.Implies(rng, z3.And(rk[i] == kv.t, z3.Select(rm, kv.t) == vv.t)), patterns=[rk[i]]))
            # the new dict is a fresh heap object
            vcls = "dict_str_str" if (kv.ty == "str" and vv.ty == "str") else ("dict_str_ref" if kv.ty == "str" and (is_ref(vv.ty) or vv.ty == "int") else None)
            if is_ref(vv.ty) and f"dict_{vv.ty[1]}" in models.CLASSES:
                vcls = f"dict_{vv.ty[1]}"
            if is_ref(vv.ty):
                # the contract says which dictionary class holds values of this class (e.g. signatures: str -> PDDLType in dict_str_ref)
                declared = [d for d, el in self.c.get("dict_values", {}).items() if el == vv.ty[1]]
                if declared:
                    vcls = declared[0]
            if vcls is None:
                raise Unsupported(f"dict comprehension of {kv.ty} -> {vv.ty}")
            d = self.alloc(s3, vcls)
            saved, self.spec_mode = self.spec_mode, 1       # initialising writes to the fresh object: no frame obligation needed
            try:
                self.write_field(s3, d, vcls, "keys", Val(rk, ("seq", "str")), getattr(e, "lineno", None))
                self.write_field(s3, d, vcls, "map", Val(rm, models.CLASSES[vcls]["fields"]["map"]), getattr(e, "lineno", None))
            finally:
                self.spec_mode = saved
            yield s3, d

    def ev_SetComp(self, e, st):
        # a set is modelled by a sequence of its members in an arbitrary order (membership semantics only)
        yield from self.comprehension(e, st, "set")

    def comprehension(self, e, st, kind):
        if len(e.generators) != 1:
            raise Unsupported("nested comprehension")
        g = e.generators[0]
        for st1, it in self.ev(g.iter, st):
            if isinstance(it, Raise):
                yield st1, it
                continue
            if it.ty == "pylist" and isinstance(g.target, ast.Name):
                # concrete length: unroll (exact)
                def go(i, st, acc):
                    if i == len(it.py):
                        yield st, Val(None, "pylist", acc)
                        return
                    s = st.fork()
                    s.env[g.target.id] = it.py[i]
                    conds = [(s, True)]
                    for c in g.ifs:
                        nxt = []
                        for (sx, keep) in conds:
                            if keep is not True:
                                nxt.append((sx, keep))
                                continue
                            for s2, cv in self.ev(c, sx):
                                if isinstance(cv, Raise):
                                    nxt.append((s2, cv))
                                    continue
                                ct = self.truthy(cv)
                                sa, sb = s2.assume(ct), s2.assume(z3.Not(ct))
                                if self.feasible(sa):
                                    nxt.append((sa, True))
                                if self.feasible(sb):
                                    nxt.append((sb, False))
                        conds = nxt
                    for sx, keep in conds:
                        if isinstance(keep, Raise):
                            yield sx, keep
                        elif keep is False:
                            yield from go(i + 1, sx, acc)
                        else:
                            for s3, v in self.ev(e.elt, sx):
                                if isinstance(v, Raise):
                                    yield s3, v
                                else:
                                    yield from go(i + 1, s3, acc + [v])
                yield from go(0, st1, [])
                continue
            # symbolic-length sequence: only pure, non-raising, unfiltered element maps
            if is_ref(it.ty) and it.ty[1].startswith("dict_"):
                s = self.read_field(st1, it, it.ty[1], "keys")
            else:
                s = self.seq_of(st1, it)
            i = bound_var("ci", I)
            n = z3.Length(s.t)
            s2 = st1.assume(z3.And(i >= 0, i < n))
            base_len = len(s2.conds)
            elem = Val(s.t[i], s.ty[1])
            if isinstance(g.target, ast.Name):
                s2.env[g.target.id] = elem
            elif isinstance(g.target, ast.Tuple) and isinstance(elem.ty, tuple) and elem.ty[0] == "tuple" and all(isinstance(x, ast.Name) for x in g.target.elts):
                dt = sort_of(elem.ty)
                for j, nm in enumerate(g.target.elts):
                    s2.env[nm.id] = Val(dt.accessor(0, j)(elem.t), elem.ty[1][j])
            else:
                raise Unsupported("comprehension target")
            keep = None
            if g.ifs:
                # filter conditions: pure, non-raising, non-forking tests of the element (evaluated like specification expressions)
                parts = []
                self.spec_mode += 1
                try:
                    for c in g.ifs:
                        res = list(self.ev(c, s2))
                        if len(res) != 1 or isinstance(res[0][1], Raise):
                            raise Unsupported("filter condition of a comprehension forks or raises")
                        parts.append(self.truthy(res[0][1], res[0][0]))
                finally:
                    self.spec_mode -= 1
                keep = z3.And(*parts)
            outcome = None
            for kind_, sy, payload in self.indexed_eval(st1, i, n, s2, [e.elt], getattr(e, "lineno", None)):
                if kind_ == "raise":
                    yield sy, payload
                else:
                    outcome = (sy, payload)
            if outcome is None:
                continue
            s3, (body,) = outcome
            if body.ty == "tuple":
                tys = tuple(x.ty for x in body.py)
                dt = sort_of(("tuple", tys))
                body = Val(dt.constructor(0)(*[x.t for x in body.py]), ("tuple", tys))
            rty = ("seq", body.ty)
            r = fresh_const("comp", sort_of(rty))
            rng = z3.And(i >= 0, i < n)
            if keep is None:
                s3 = s3.assume(z3.Length(r) == n)
                s3 = s3.assume(z3.ForAll([i], z3.Implies(rng, r[i] == body.t), patterns=[r[i]]))
            else:
                # the kept elements, in order: an increasing map pos from result positions to source positions whose range is exactly the
                # positions that pass the filter (inv is its inverse on those)
                m = z3.Length(r)
                pos = z3.Function(core_fresh_name("fpos"), I, I)
                inv = z3.Function(core_fresh_name("finv"), I, I)
                j, j2 = bound_var("fj", I), bound_var("fk", I)
                at = lambda t, x: z3.substitute(t, (i, x))
                s3 = s3.assume(z3.And(m >= 0, m <= n))
                s3 = s3.assume(z3.ForAll([j], z3.Implies(z3.And(j >= 0, j < m),
                                                          z3.And(pos(j) >= 0, pos(j) < n, at(keep, pos(j)), r[j] == at(body.t, pos(j)), inv(pos(j)) == j)),
                                         patterns=[r[j]]))
                s3 = s3.assume(z3.ForAll([j, j2], z3.Implies(z3.And(j >= 0, j < j2, j2 < m), pos(j) < pos(j2))))
                s3 = s3.assume(z3.ForAll([i], z3.Implies(z3.And(rng, keep), z3.And(inv(i) >= 0, inv(i) < m, pos(inv(i)) == i, r[inv(i)] == body.t)),
                                         patterns=[inv(i)]))
            scls = f"set_{body.ty[1]}" if kind == "set" and is_ref(body.ty) else None
            if scls in models.CLASSES and not self.spec_mode:
                # a set of objects is a fresh heap object (it can be mutated later): members in an arbitrary order, duplicates possible
                d = self.alloc(s3, scls)
                saved, self.spec_mode = self.spec_mode, 1
                try:
                    self.write_field(s3, d, scls, "items", Val(r, rty), getattr(e, "lineno", None))
                finally:
                    self.spec_mode = saved
                yield s3, d
                continue
            yield s3, Val(r, rty)

    def ev_Call(self, e, st):
        from .calls import ev_call
        yield from ev_call(self, e, st)

    # ------------------------------------------------------------------ specification expressions
    def eval_spec(self, text, st, old_st=None, extra_env=None):
        """Evaluate a contract expression (string) in state st; `old(...)` refers to old_st."""
        tree = text if isinstance(text, ast.AST) else ast.parse(text, mode="eval").body
        s = st.fork()
        if extra_env:
            s.env.update(extra_env)
        s.ghost["__old__"] = old_st
        self.spec_mode += 1
        try:
            res = list(self.ev(tree, s))
        finally:
            self.spec_mode -= 1
        if len(res) != 1 or isinstance(res[0][1], Raise):
            raise Unsupported(f"specification expression forks or raises: {text if isinstance(text, str) else ast.unparse(text)}")
        return res[0][1]
