"""pyvc core data structures: symbolic values, states, obligations."""
import itertools
import z3
from .sorts import sort_of, I

_fresh = itertools.count()


def fresh_name(prefix):
    return f"{prefix}!{next(_fresh)}"


def reset_names():
    """Symbol numbering restarts for every function under contract: the generated formulas (and hence the solver's behaviour) do not
    depend on which functions the same worker process handled before."""
    global _fresh
    _fresh = itertools.count()


INDEX_STACK = []      # indices of the enclosing symbolic comprehensions (innermost last)


def fresh_const(prefix, sort):
    """A fresh *value*.  Inside the element expression of a comprehension over a symbolic sequence the value may differ from
    iteration to iteration: it is a skolem function of the enclosing indices."""
    if INDEX_STACK:
        f = z3.Function(fresh_name(prefix), *([z3.IntSort()] * len(INDEX_STACK)), sort)
        return f(*INDEX_STACK)
    return z3.Const(fresh_name(prefix), sort)


def bound_var(prefix, sort):
    """A fresh constant used as a bound / index variable (never index dependent)."""
    return z3.Const(fresh_name(prefix), sort)


class Unsupported(Exception):
    """Construct outside the translated subset: the whole function becomes 'out of reach' (class B)."""


class Val:
    """A symbolic Python value.  t: z3 term (may be None for purely Python-side values),
    ty: type descriptor, py: Python-side payload (list of Val for tuples/pylists, callables, ...)."""
    __slots__ = ("t", "ty", "py")

    def __init__(self, t, ty, py=None):
        self.t = t
        self.ty = ty
        self.py = py

    def __repr__(self):
        return f"Val({self.t}, {self.ty}, {self.py})"


class Raise:
    """Exceptional result of an expression or statement."""
    __slots__ = ("name", "line")

    def __init__(self, name, line=None):
        self.name = name
        self.line = line

    def __repr__(self):
        return f"Raise({self.name}@{self.line})"


EXC_PARENTS = {
    "KeyError": "LookupError", "IndexError": "LookupError", "LookupError": "Exception",
    "ValueError": "Exception", "SyntaxError": "Exception", "AssertionError": "Exception",
    "TypeError": "Exception", "StopIteration": "Exception", "ZeroDivisionError": "ArithmeticError",
    "ArithmeticError": "Exception", "AttributeError": "Exception", "RuntimeError": "Exception",
    "NotImplementedError": "RuntimeError", "Exception": "BaseException", "BaseException": None,
}


def exc_matches(name, handler):
    while name is not None:
        if name == handler:
            return True
        name = EXC_PARENTS.get(name)
    return False


class State:
    __slots__ = ("conds", "env", "heap", "top", "entry", "ghost", "trace")

    def __init__(self):
        self.conds = []
        self.env = {}
        self.heap = {}
        self.top = None
        self.entry = None
        self.ghost = {}
        self.trace = []

    def fork(self):
        s = State()
        s.conds = list(self.conds)
        s.env = dict(self.env)
        s.heap = dict(self.heap)
        s.top = self.top
        s.entry = self.entry
        s.ghost = dict(self.ghost)
        s.trace = list(self.trace)
        return s

    def assume(self, c):
        s = self.fork()
        s.conds.append(c)
        return s


class Obligation:
    def __init__(self, oid, kind, conds, goal, line=None, info=None, expect="unsat"):
        self.oid = oid          # stable id: <function key>/<kind>#<clause ordinal>[@line]
        self.kind = kind
        self.conds = conds
        self.goal = goal        # z3 Bool that must hold under conds (None for cover/canary)
        self.line = line
        self.info = info or {}
        self.expect = expect    # 'unsat' of conds & not goal  |  'sat' (cover / canary)
        self.verdict = None     # proved | refuted | unknown
        self.backend = None
        self.seconds = None
        self.model = None
        self.trace = None

    def to_json(self):
        return {"id": self.oid, "kind": self.kind, "verdict": self.verdict, "backend": self.backend,
                "seconds": round(self.seconds or 0, 4), "confirm_seconds": getattr(self, "confirm_seconds", 0), "line": self.line,
                "reason": (str(getattr(self, "reason", "") or "")[:200] if self.verdict == "unknown" else None)}
