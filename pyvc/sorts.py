"""SMT sorts, algebraic datatypes and spec RecFunctions shared by the pyvc engine.

Everything here is *specification-side*: the ADTs model Python values
(S-expressions produced by the tokenizer, anytree expression trees), the RecFunctions are
the spec functions contracts talk about.  Each RecFunction has an executable twin in
/verif/spec (audited against it by ./vcheck --selftest-spec).
"""
import z3

S = z3.StringSort()
Q = z3.SeqSort(S)
I = z3.IntSort()
R = z3.RealSort()
B = z3.BoolSort()

# ---- S-expressions (Expression = Union[str, List[Expression]]) as snoc-lists -------------------
SExp = z3.Datatype("SExp")
SList = z3.Datatype("SList")
SExp.declare("Atom", ("s", S))
SExp.declare("Lst", ("items", SList))
SList.declare("Nil")
SList.declare("Snoc", ("init", SList), ("last", SExp))
SExp, SList = z3.CreateDatatypes(SExp, SList)

# ---- anytree.AnyNode expression trees ------------------------------------------------------------
# Num(v) numeric leaf; Fn(ref) leaf holding a PDDLFunction heap reference; Op(op,l,r) binary node.
Tree = z3.Datatype("Tree")
Tree.declare("Num", ("v", R))
Tree.declare("Fn", ("ref", I))
Tree.declare("Op", ("op", S), ("l", Tree), ("r", Tree))
Tree = Tree.create()


REC_DEFS = {}      # name -> (function, parameters, body): recursive specification functions whose definition may be unfolded as a hint


def rec_define(f, params, body):
    """z3.RecAddDefinition plus a record of the definition (the solver front end adds unfoldings of applications it sees as hints)"""
    z3.RecAddDefinition(f, params, body)
    REC_DEFS[f.name()] = (f, list(params), body if z3.is_expr(body) else z3.BoolVal(bool(body)))


def U(s):
    return z3.Unit(z3.StringVal(s))


def sv(s):
    return z3.StringVal(s)


# ---- spec functions --------------------------------------------------------------------------------
flat = z3.RecFunction("flat", SExp, Q)
flatl = z3.RecFunction("flatl", SList, Q)
_e = z3.Const("_e", SExp)
_l = z3.Const("_l", SList)
z3.RecAddDefinition(
    flat, [_e],
    z3.If(SExp.is_Atom(_e), z3.Unit(SExp.s(_e)),
          z3.Concat(U("("), flatl(SExp.items(_e)), U(")"))))
z3.RecAddDefinition(
    flatl, [_l],
    z3.If(SList.is_Nil(_l), z3.Empty(Q),
          z3.Concat(flatl(SList.init(_l)), flat(SList.last(_l)))))

# wf_sexp: every atom is a non-parenthesis token
wf_sexp = z3.RecFunction("wf_sexp", SExp, B)
wf_slist = z3.RecFunction("wf_slist", SList, B)
z3.RecAddDefinition(
    wf_sexp, [_e],
    z3.If(SExp.is_Atom(_e),
          z3.And(SExp.s(_e) != sv("("), SExp.s(_e) != sv(")")),
          wf_slist(SExp.items(_e))))
z3.RecAddDefinition(
    wf_slist, [_l],
    z3.If(SList.is_Nil(_l), z3.BoolVal(True),
          z3.And(wf_slist(SList.init(_l)), wf_sexp(SList.last(_l)))))

# size of an S-expression (used as variant)
ssize = z3.RecFunction("ssize", SExp, I)
slsize = z3.RecFunction("slsize", SList, I)
z3.RecAddDefinition(ssize, [_e], z3.If(SExp.is_Atom(_e), z3.IntVal(1), 1 + slsize(SExp.items(_e))))
z3.RecAddDefinition(slsize, [_l], z3.If(SList.is_Nil(_l), z3.IntVal(0),
                                        slsize(SList.init(_l)) + ssize(SList.last(_l))))

# number of items in a snoc list
slen = z3.RecFunction("slen", SList, I)
z3.RecAddDefinition(slen, [_l], z3.If(SList.is_Nil(_l), z3.IntVal(0), 1 + slen(SList.init(_l))))

# first item / all-but-first items of a snoc list (the parsers consume S-expressions from the front)
sfirst = z3.RecFunction("sfirst", SList, SExp)
srest = z3.RecFunction("srest", SList, SList)
z3.RecAddDefinition(sfirst, [_l], z3.If(SList.is_Nil(SList.init(_l)), SList.last(_l), sfirst(SList.init(_l))))
z3.RecAddDefinition(srest, [_l], z3.If(SList.is_Nil(_l), SList.Nil,
                                       z3.If(SList.is_Nil(SList.init(_l)), SList.Nil, SList.Snoc(srest(SList.init(_l)), SList.last(_l)))))

# i-th item (from the front) of a snoc list; arbitrary outside 0 <= i < slen
snth = z3.RecFunction("snth", SList, I, SExp)
_ix = z3.Const("_ix", I)
z3.RecAddDefinition(snth, [_l, _ix], z3.If(SList.is_Nil(_l), SExp.Atom(sv("")),
                                           z3.If(_ix == slen(SList.init(_l)), SList.last(_l), snth(SList.init(_l), _ix))))

# ---- expression-tree semantics ---------------------------------------------------------------------
# val(tree, stored) : value of a tree under the current stored_value array of PDDLFunction objects
_t = z3.Const("_t", Tree)
_st = z3.Const("_st", z3.ArraySort(I, R))
tval = z3.RecFunction("tval", Tree, z3.ArraySort(I, R), R)
_lv = tval(Tree.l(_t), _st)
_rv = tval(Tree.r(_t), _st)
z3.RecAddDefinition(
    tval, [_t, _st],
    z3.If(Tree.is_Num(_t), Tree.v(_t),
          z3.If(Tree.is_Fn(_t), z3.Select(_st, Tree.ref(_t)),
                z3.If(Tree.op(_t) == sv("+"), _lv + _rv,
                      z3.If(Tree.op(_t) == sv("-"), _lv - _rv,
                            z3.If(Tree.op(_t) == sv("*"), _lv * _rv, _lv / _rv))))))
# every inner node is one of + - * /
wf_arith = z3.RecFunction("wf_arith", Tree, B)
z3.RecAddDefinition(
    wf_arith, [_t],
    z3.If(Tree.is_Op(_t),
          z3.And(z3.Or(Tree.op(_t) == sv("+"), Tree.op(_t) == sv("-"),
                       Tree.op(_t) == sv("*"), Tree.op(_t) == sv("/")),
                 wf_arith(Tree.l(_t)), wf_arith(Tree.r(_t))),
          z3.BoolVal(True)))
# some division inside the tree has a zero divisor under `stored`
divzero = z3.RecFunction("divzero", Tree, z3.ArraySort(I, R), B)
z3.RecAddDefinition(
    divzero, [_t, _st],
    z3.If(Tree.is_Op(_t),
          z3.Or(divzero(Tree.l(_t), _st), divzero(Tree.r(_t), _st),
                z3.And(Tree.op(_t) == sv("/"), tval(Tree.r(_t), _st) == 0)),
          z3.BoolVal(False)))
theight = z3.RecFunction("theight", Tree, I)
_hl = theight(Tree.l(_t))
_hr = theight(Tree.r(_t))
z3.RecAddDefinition(theight, [_t], z3.If(Tree.is_Op(_t), 1 + z3.If(_hl > _hr, _hl, _hr), z3.IntVal(0)))
# all Fn leaves reference allocated PDDLFunction objects (1..top)
tree_refs_ok = z3.RecFunction("tree_refs_ok", Tree, I, B)
_top = z3.Const("_top", I)
z3.RecAddDefinition(
    tree_refs_ok, [_t, _top],
    z3.If(Tree.is_Op(_t), z3.And(tree_refs_ok(Tree.l(_t), _top), tree_refs_ok(Tree.r(_t), _top)),
          z3.If(Tree.is_Fn(_t), z3.And(Tree.ref(_t) >= 1, Tree.ref(_t) <= _top), z3.BoolVal(True))))
# is ref r a Fn leaf of tree t
leaf_of = z3.RecFunction("leaf_of", Tree, I, B)
_r = z3.Const("_r", I)
z3.RecAddDefinition(
    leaf_of, [_t, _r],
    z3.If(Tree.is_Op(_t), z3.Or(leaf_of(Tree.l(_t), _r), leaf_of(Tree.r(_t), _r)),
          z3.If(Tree.is_Fn(_t), Tree.ref(_t) == _r, z3.BoolVal(False))))

# ---- lexing: lexline is the character-level spec lexer of one line (executable twin: spec/sexp.py:lexline); uninterpreted in proofs
lexline = z3.Function("lexline", S, Q)
lex_lines = z3.RecFunction("lex_lines", Q, Q)
_ls = z3.Const("_ls", Q)
_n = z3.Length(_ls)
z3.RecAddDefinition(lex_lines, [_ls], z3.If(_n == 0, z3.Empty(Q), z3.Concat(lex_lines(z3.SubSeq(_ls, 0, _n - 1)), lexline(_ls[_n - 1]))))

# lexp(L, k): tokens of the first k lines (recursion on k: no nested sub-sequences in the unfolding)
lexp = z3.RecFunction("lexp", Q, I, Q)
_k = z3.Const("_k", I)
z3.RecAddDefinition(lexp, [_ls, _k], z3.If(_k <= 0, z3.Empty(Q), z3.Concat(lexp(_ls, _k - 1), lexline(_ls[_k - 1]))))

# Uninterpreted twins of the list functions: a contract that only passes list items on (and never needs how snth / srest / slen are
# computed) lists them under `opaque_funcs`; hiding the definitions keeps the solver from unfolding them endlessly.
OPAQUE_FUNCS = {
    "snth": z3.Function("snth_u", SList, I, SExp), "slen": z3.Function("slen_u", SList, I),
    "sfirst": z3.Function("sfirst_u", SList, SExp), "srest": z3.Function("srest_u", SList, SList),
}
SPEC_FUNCS = {
    "flat": (flat, ["sexp"], ("seq", "str")),
    "lexline": (lexline, ["str"], ("seq", "str")),
    "lex_lines": (lex_lines, [("seq", "str")], ("seq", "str")),
    "flatl": (flatl, ["slist"], ("seq", "str")),
    "wf_sexp": (wf_sexp, ["sexp"], "bool"),
    "wf_slist": (wf_slist, ["slist"], "bool"),
    "ssize": (ssize, ["sexp"], "int"),
    "slen": (slen, ["slist"], "int"),
    "snth": (snth, ["slist", "int"], "sexp"),
    "sfirst": (sfirst, ["slist"], "sexp"),
    "srest": (srest, ["slist"], "slist"),
    "wf_arith": (wf_arith, ["tree"], "bool"),
    "theight": (theight, ["tree"], "int"),
}

_tuple_sorts = {}


def sort_of(ty):
    if ty == "int":
        return I
    if ty == "real":
        return R
    if ty == "bool":
        return B
    if ty == "str":
        return S
    if ty == "sexp":
        return SExp
    if ty == "slist":
        return SList
    if ty == "tree":
        return Tree
    if ty == "none":
        return I
    if isinstance(ty, tuple):
        if ty[0] == "ref":
            return I
        if ty[0] == "seq":
            return z3.SeqSort(sort_of(ty[1]))
        if ty[0] == "tuple":
            key = tuple(ty[1])
            if key not in _tuple_sorts:
                name = "Tup_" + "_".join(str(sort_of(t)).replace("(", "").replace(")", "").replace(" ", "")
                                         for t in key)
                dt = z3.Datatype(name)
                dt.declare("mk", *[(f"f{i}", sort_of(t)) for i, t in enumerate(key)])
                _tuple_sorts[key] = dt.create()
            return _tuple_sorts[key]
        if ty[0] == "map":
            return z3.ArraySort(sort_of(ty[1]), sort_of(ty[2]))
    raise TypeError(f"no sort for type {ty!r}")

# ---- PDDLType heap: ancestor test along the parent chain -------------------------------------------
# anc(N, P, r, nm): some type on the parent chain starting at r (inclusive) is named nm.
_N = z3.Const("_N", z3.ArraySort(I, S))
_P = z3.Const("_P", z3.ArraySort(I, I))
_nm = z3.Const("_nm", S)
anc = z3.RecFunction("anc", z3.ArraySort(I, S), z3.ArraySort(I, I), I, S, B)
z3.RecAddDefinition(
    anc, [_N, _P, _r, _nm],
    z3.If(_r == 0, z3.BoolVal(False),
          z3.If(z3.Select(_N, _r) == _nm, z3.BoolVal(True), anc(_N, _P, z3.Select(_P, _r), _nm))))
RANK = z3.Const("G_rank", z3.ArraySort(I, I))     # ghost: well-founded measure of the parent relation
