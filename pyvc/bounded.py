"""Bounded stand-ins: executable contracts run natively against the real code over an enumerated scope.

A Harness enumerates JSON-serialisable inputs (`inputs`), runs the real repository function on each and
evaluates the contract (`check`) returning a list of failures.  Nothing a harness establishes is ever
counted as proved; evidence labels it `bounded` with its bound.
"""
import json
import time
import traceback


class Failure(dict):
    """{clause, input, expected, observed, cls}; cls = finding class computed by the harness (or None)."""


class Harness:
    name = "?"
    prop = "?"
    functions = ()          # repository functions exercised (qualified names)
    bound = {"quick": "", "thorough": ""}
    rule = ""
    exhaustive = True
    cases = 0

    def inputs(self, tier, seed):
        raise NotImplementedError

    def escalated_inputs(self, seed):
        """Inputs of the escalated scope (used only after a deductive obligation regressed): default = thorough tier."""
        return self.inputs("thorough", seed)

    def check(self, inp):
        """Run the real code on inp; return list of Failure (empty = contract held)."""
        raise NotImplementedError

    def nontrivial_key(self, inp):
        """Return a hashable key for a non-trivial input (None = trivial)."""
        return json.dumps(inp, sort_keys=True, default=str)

    def classify(self, failure):
        return failure.get("cls")


def run_harness(h, tier, seed, budget_s=None, max_failures=25, shard=(0, 1)):
    t0 = time.time()
    evaluations = 0
    h.cases = 0
    keys = set()
    failures = []
    samples = []
    crashed = None
    truncated = False
    try:
        for idx, inp in enumerate(h.escalated_inputs(seed) if tier == "escalate" else h.inputs(tier, seed)):
            if idx % shard[1] != shard[0]:
                continue
            evaluations += 1
            k = h.nontrivial_key(inp)
            if k is not None:
                keys.add(k)
            if len(samples) < 3:
                samples.append(inp)
            try:
                fs = h.check(inp)
            except Exception:
                fs = [Failure(clause="harness-crash", input=inp, expected="no exception in harness",
                              observed=traceback.format_exc()[-1500:], cls="__crash__")]
            for f in fs or []:
                f.setdefault("input", inp)
                f["harness"] = h.name
                if len(failures) < max_failures or f.get("cls") not in {x.get("cls") for x in failures}:
                    failures.append(f)
            if budget_s and time.time() - t0 > budget_s:
                truncated = True
                break
    except Exception:
        crashed = traceback.format_exc()[-2000:]
    inner = getattr(h, "cases", 0)
    return {
        "inputs": evaluations, "cases": inner,
        "harness": h.name, "prop": h.prop, "functions": list(h.functions), "bound": h.bound.get(tier, h.bound.get("thorough", "")),
        "rule": h.rule, "evaluations": inner or evaluations, "distinct_nontrivial": len(keys),
        "exhaustive": bool(h.exhaustive and not truncated and crashed is None),
        "failures": failures, "samples": samples, "crashed": crashed, "seconds": round(time.time() - t0, 2),
    }
