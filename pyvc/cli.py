"""vcheck driver: decide one property (deductive obligations + bounded stand-ins), write evidence."""
import argparse
import hashlib
import importlib
import json
import multiprocessing as mp
import os
import sys
import time
import traceback
from pathlib import Path

ROOT = Path(__file__).resolve().parent.parent
sys.path.insert(0, str(ROOT))
REPO = os.environ.get("PYVC_REPO", "/repo")
if REPO != "/repo":
    sys.path.insert(0, REPO)          # scratch copy of the repository shadows the installed package

ENGINE_VERSION = "pyvc-0.4"


def load_prop(prop):
    return importlib.import_module(f"contracts.{prop.lower()}")


# ------------------------------------------------------------------------------------------------ workers
def verify_function(args):
    """Worker: VC generation + solving for one function under contract."""
    prop, key, shard, nshards = args
    from pyvc import source, engine, solve, models
    from pyvc.core import Unsupported
    mod = load_prop(prop)
    registry = dict(mod.CONTRACTS)
    for extra in getattr(mod, "IMPORT_CONTRACTS", []):
        registry.update(importlib.import_module(f"contracts.{extra}").CONTRACTS)
    c = registry[key]
    out = {"key": key, "status": None, "obligations": [], "reason": None, "sha256": None, "seconds": 0, "dead": []}
    t0 = time.time()
    try:
        fs = source.find_function(key)
        out["sha256"] = fs.sha256
        stale = models.check_class_model()
        touched = [cls for cls in stale if cls in json.dumps(c, default=str)]
        if touched:
            raise Unsupported(f"class model out of date for {touched}: {[stale[t] for t in touched]}")
        it = engine.Interp(fs, c, registry)
        obs = it.run()
        out["generated"] = len(obs)
        undecided_seconds = 0.0
        for idx, o in enumerate(obs):
            if idx % nshards != shard:
                continue        # another worker of the pool generates the same obligations and discharges this one
            # once this worker has spent a minute on obligations it could not decide, the function is demoted for this run anyway:
            # the remaining obligations get the short pipeline (a refutation, if there is one, is still found and reported)
            solve.solve(o, fast=undecided_seconds > 60)
            if o.verdict == "unknown":
                undecided_seconds += o.seconds or 0
            j = o.to_json()
            j["index"] = idx
            j["label"] = o.info.get("label")
            if o.verdict == "refuted":
                j["model"] = o.model
            if o.verdict == "unknown":
                j["reason"] = getattr(o, "reason", None)
            out["obligations"].append(j)
        out["dead"] = sorted(set(it.dead))
        out["inlined"] = list(it.notes)
        out["status"] = "translated"
    except KeyError as ex:
        out["status"] = "out-of-reach"
        out["reason"] = f"function not found in the working tree: {ex}"
    except Unsupported as ex:
        out["status"] = "out-of-reach"
        out["reason"] = f"outside the translated subset: {ex}"
    except Exception:
        out["status"] = "engine-error"
        out["reason"] = traceback.format_exc()[-1500:]
    out["seconds"] = round(time.time() - t0, 3)
    return out


def run_one_harness(args):
    prop, name, tier, seed, k, n = args
    from pyvc import bounded
    mod = load_prop(prop)
    h = next(x for x in mod.HARNESSES if x.name == name)
    budget = getattr(h, "budget_s", {}).get(tier)
    return bounded.run_harness(h, tier, seed, budget_s=budget, shard=(k, n))


# ------------------------------------------------------------------------------------------------ helpers
def load_known():
    p = ROOT / "known_findings.json"
    if not p.exists():
        return []
    return json.loads(p.read_text())


def write_replay(prop, payload):
    d = ROOT / "replays"
    d.mkdir(exist_ok=True)
    h = hashlib.sha256(json.dumps(payload, sort_keys=True, default=str).encode()).hexdigest()[:12]
    p = d / f"{prop}-{h}.json"
    p.write_text(json.dumps(payload, indent=1, default=str))
    return p


def replay(path):
    payload = json.loads(Path(path).read_text())
    prop = payload["property"]
    if payload.get("kind") == "obligation":
        print(f"replay: obligation {payload['obligation']} (no concrete input) — re-running the deductive check")
        r = verify_function((prop, payload["function"], 0, 1))
        bad = [o for o in r["obligations"] if o["id"] == payload["obligation"] and o["verdict"] not in ("proved", "reachable")]
        print(json.dumps(bad or r.get("reason"), indent=1))
        return 1 if (bad or r["status"] != "translated") else 0
    mod = load_prop(prop)
    h = next(x for x in mod.HARNESSES if x.name == payload["harness"])
    fs = h.check(payload["input"])
    if fs:
        for f in fs:
            print(f"REPLAY-FAIL property={prop} clause={f.get('clause')}\n  input={json.dumps(payload['input'], default=str)[:600]}\n"
                  f"  expected={str(f.get('expected'))[:600]}\n  observed={str(f.get('observed'))[:600]}")
        return 1
    print("replay: contract holds on this tree for the recorded input")
    return 0


# ------------------------------------------------------------------------------------------------ main
def check_property(prop, tier, seed, rebaseline=False, jobs=None):
    t0 = time.time()
    mod = load_prop(prop)
    contracts = dict(mod.CONTRACTS)
    harnesses = list(getattr(mod, "HARNESSES", []))
    jobs = jobs or min(16, os.cpu_count() or 4)
    tasks_f = [(prop, k, sh, int(contracts[k].get("shards", 1))) for k in contracts
               if not k.startswith("__") and contracts[k].get("prop", prop) == prop and not contracts[k].get("assumed")
               for sh in range(int(contracts[k].get("shards", 1)))]
    tasks_h = [(prop, h.name, tier, seed, k, getattr(h, "shards", 1)) for h in harnesses
               if tier in getattr(h, "tiers", ("quick", "thorough")) for k in range(getattr(h, "shards", 1))]
    with mp.get_context("fork").Pool(jobs) as pool:
        fr = pool.map_async(verify_function, tasks_f, chunksize=1)
        hr = pool.map_async(run_one_harness, tasks_h, chunksize=1)
        fres_sh = fr.get()
        hres_sh = hr.get()
    # merge the obligation shards of one function (every shard generates all obligations and discharges its share)
    fmerged = {}
    for r in fres_sh:
        m = fmerged.get(r["key"])
        if m is None:
            fmerged[r["key"]] = r
            continue
        if r["status"] != "translated" or m["status"] != "translated":
            if m["status"] == "translated":
                fmerged[r["key"]] = r
            continue
        if r.get("generated") != m.get("generated"):
            m["status"], m["reason"] = "engine-error", "obligation shards disagree on the number of generated obligations"
            continue
        m["obligations"] = sorted(m["obligations"] + r["obligations"], key=lambda o: o["index"])
        m["seconds"] = max(m["seconds"], r["seconds"])
        m["dead"] = sorted(set(m["dead"]) | set(r["dead"]))
    for m in fmerged.values():
        if m["status"] == "translated" and len(m["obligations"]) != m.get("generated"):
            m["status"], m["reason"] = "engine-error", f"{len(m['obligations'])} of {m.get('generated')} obligations came back from the shards"
    fres = list(fmerged.values())
    # merge the shards of one harness
    merged = {}
    for r in hres_sh:
        m = merged.get(r["harness"])
        if m is None:
            merged[r["harness"]] = r
            continue
        for k in ("evaluations", "distinct_nontrivial"):
            m[k] += r[k]
        m["seconds"] = max(m["seconds"], r["seconds"])
        m["exhaustive"] = m["exhaustive"] and r["exhaustive"]
        m["failures"].extend(r["failures"])
        m["samples"] = (m["samples"] + r["samples"])[:3]
        m["crashed"] = m["crashed"] or r["crashed"]
    hres = list(merged.values())

    lines = []
    violations = []
    known_printed = []
    broken = []
    known = [k for k in load_known() if k.get("property") == prop and not str(k.get("status", "")).startswith("fixed")]
    known_classes = {k["class"]: k for k in known}

    # a known finding only counts while its witness still fails natively on this tree (DESIGN §2.10 (i))
    confirmed = set()
    for k in known:
        w = k.get("witness")
        try:
            h = next(x for x in harnesses if x.name == w["harness"])
            if h.check(w["input"]):
                confirmed.add(k["class"])
        except Exception:
            pass
    known_classes = {c: k for c, k in known_classes.items() if c in confirmed}
    known_obl = {k["obligation"]: k for k in known if k.get("obligation") and k["class"] in confirmed}
    known_obl_hit = []

    base_path = ROOT / "baseline" / f"{prop}.json"
    baseline = json.loads(base_path.read_text()) if base_path.exists() else {"proved": []}
    base_proved = set(baseline.get("proved", []))

    # ---- deductive part
    total_obl = discharged = 0
    by_backend = {}
    functions = []
    demoted = []
    undecided = []
    proved_ids = set()
    all_ids = {}
    for r in fres:
        key = r["key"]
        entry = {"function": key, "sha256": r["sha256"], "class": "P", "seconds": r["seconds"], "obligations": {}, "dead_branches": r.get("dead", []),
                 "inlined_callees": r.get("inlined", [])}
        if r["status"] == "engine-error":
            entry["class"] = "B(demoted)"
            entry["reason"] = r["reason"]
            demoted.append({"function": key, "reason": "engine error: " + (r["reason"] or "")[-300:]})
            functions.append(entry)
            continue
        if r["status"] != "translated":
            entry["class"] = "B(demoted)"
            entry["reason"] = r["reason"]
            demoted.append({"function": key, "reason": r["reason"]})
            functions.append(entry)
            continue
        obs = r["obligations"]
        if not obs:
            broken.append(f"zero obligations generated for {key}")
        by_id = {}
        for o in obs:
            by_id.setdefault(o["id"], []).append(o)
        fn_ok = True
        for oid, group in by_id.items():
            kind = group[0]["kind"]
            if kind in ("cover", "canary"):
                if any(o["verdict"] == "vacuous" for o in group) and kind == "cover":
                    broken.append(f"vacuous precondition: {oid}")
                continue
            ok = all(o["verdict"] == "proved" for o in group)
            if not ok and oid in known_obl:
                # the clause states the property; it is refuted by a listed, natively confirmed defect
                entry["obligations"][oid] = {"instances": len(group), "verdict": "known-finding", "backend": sorted({o["backend"] for o in group}), "seconds": round(sum(o["seconds"] for o in group), 4)}
                known_obl_hit.append(oid)
                if known_obl[oid]["class"] not in [c for c, _ in known_printed]:
                    known_printed.append((known_obl[oid]["class"], known_obl[oid]["what"]))
                continue
            total_obl += len(group)
            discharged += sum(1 for o in group if o["verdict"] == "proved")
            for o in group:
                if o["verdict"] == "proved":
                    by_backend[o["backend"]] = by_backend.get(o["backend"], 0) + 1
            all_ids[oid] = group
            entry["obligations"][oid] = {"instances": len(group), "verdict": "proved" if ok else
                                         ("refuted" if any(o["verdict"] == "refuted" for o in group) else "unknown"),
                                         "backend": sorted({o["backend"] for o in group}),
                                         "seconds": round(sum(o["seconds"] for o in group), 4),
                                         "confirm_seconds": round(sum(o.get("confirm_seconds", 0) for o in group), 3)}
            if ok:
                proved_ids.add(oid)
            else:
                fn_ok = False
        canaries = [o for o in obs if o["kind"] == "canary"]
        if canaries and all(o["verdict"] == "vacuous" for o in canaries):
            broken.append(f"all normal exits of {key} are unreachable under its contract (vacuous proof)")
        if not fn_ok:
            entry["class"] = "B(demoted)"
            bad = [oid for oid, v in entry["obligations"].items() if v["verdict"] not in ("proved", "known-finding")]
            demoted.append({"function": key, "reason": f"undischarged obligations: {bad}"})
            undecided.append((key, bad))
        functions.append(entry)

    if rebaseline:
        base_path.parent.mkdir(exist_ok=True)
        base_path.write_text(json.dumps({"proved": sorted(proved_ids), "engine": ENGINE_VERSION}, indent=1))
        print(f"baseline for {prop}: {len(proved_ids)} obligation ids proved")

    # ---- bounded part
    bounded_summ = []
    evaluations = 0
    distinct = 0
    samples = []
    fail_by_fn = {}
    for hr_ in hres:
        evaluations += hr_["evaluations"]
        distinct += hr_["distinct_nontrivial"]
        if hr_["crashed"]:
            broken.append(f"harness {hr_['harness']} crashed: {hr_['crashed'][-400:]}")
        bounded_summ.append({k: hr_[k] for k in ("harness", "functions", "bound", "rule", "evaluations", "distinct_nontrivial", "exhaustive", "seconds")}
                            | {"failures": len(hr_["failures"])})
        samples.extend({"harness": hr_["harness"], "input": s} for s in hr_["samples"][:2])
        seen_known = set()
        for f in hr_["failures"]:
            cls = f.get("cls")
            if cls == "__crash__":
                broken.append(f"harness {hr_['harness']} raised on input {json.dumps(f.get('input'), default=str)[:300]}: {str(f.get('observed'))[-600:]}")
                continue
            if cls in known_classes:
                if cls not in seen_known and cls not in [k for k, _ in known_printed]:
                    known_printed.append((cls, known_classes[cls]["what"]))
                seen_known.add(cls)
                continue
            p = write_replay(prop, {"property": prop, "kind": "input", "harness": hr_["harness"], "input": f.get("input"),
                                    "clause": f.get("clause"), "expected": f.get("expected"), "observed": f.get("observed"),
                                    "functions": hr_["functions"]})
            violations.append((p, f))
            for fn in hr_["functions"]:
                fail_by_fn.setdefault(fn, []).append(p)

    # ---- escalation: an obligation that is discharged on the unchanged tree is not discharged now and the quick bounded scope
    # found nothing: re-run the harnesses of that function at their escalated scope (longer sequences, thorough bounds)
    esc_names = []
    for key, bad in undecided:
        short = key.split(":")[1].split("@")[0]
        if any(short in fn or fn in key for fn in fail_by_fn):
            continue
        if not any(oid in base_proved for oid in bad):
            continue
        for h in harnesses:
            if any(fn in short or short.endswith(fn) or fn.endswith(short.split(".")[-1]) for fn in h.functions) and h.name not in esc_names:
                esc_names.append(h.name)
    if esc_names:
        with mp.get_context("fork").Pool(jobs) as pool:
            esc = pool.map(run_one_harness, [(prop, n, "escalate", seed, k, 16) for n in esc_names for k in range(16)], chunksize=1)
        for hr_ in esc:
            evaluations += hr_["evaluations"]
            for f in hr_["failures"]:
                if f.get("cls") in known_classes or f.get("cls") == "__crash__":
                    continue
                p = write_replay(prop, {"property": prop, "kind": "input", "harness": hr_["harness"], "input": f.get("input"),
                                        "clause": f.get("clause"), "expected": f.get("expected"), "observed": f.get("observed"),
                                        "functions": hr_["functions"], "found_by": "escalated bounded scope after a regressed obligation"})
                violations.append((p, f))
                for fn in hr_["functions"]:
                    fail_by_fn.setdefault(fn, []).append(p)
        lines.append(f"ESCALATED harnesses={esc_names} (regressed obligation, nothing found at the quick scope)")

    # ---- undecided / refuted obligations: concrete input from the bounded harness, else the rule of DESIGN §2.9
    for key, bad in undecided:
        short = key.split(":")[1]
        has_input = any(short in fn or fn in key for fn in fail_by_fn)
        for oid in bad:
            group = all_ids[oid]
            genuine_sat = any(o["verdict"] == "refuted" for o in group)
            kind = group[0]["kind"]
            regressed = oid in base_proved
            if has_input:
                lines.append(f"OBLIGATION-FAILED {oid} ({'refuted' if genuine_sat else 'unknown'}) — failing input found by the bounded harness, see VIOLATION line(s)")
            elif genuine_sat and regressed and kind in ("post", "exc", "frame", "pre@call"):
                o = next(o for o in group if o["verdict"] == "refuted")
                p = write_replay(prop, {"property": prop, "kind": "obligation", "function": key, "obligation": oid,
                                        "label": o.get("label"), "line": o.get("line"), "solver": o.get("backend"),
                                        "verifier_output": o.get("model")})
                violations.append((p, {"clause": oid, "nofail": True}))
            else:
                lines.append(f"UNDECIDED obligation={oid} verdict={'refuted(no replay)' if genuine_sat else 'unknown'} "
                             f"{'(proved on the unchanged tree)' if regressed else ''} — function demoted to bounded for this run"
                             + "".join(f" [{o['reason']}]" for o in [o for o in group if o.get("reason") and "z3-5.1.0 says unsat" in o["reason"]][:1]))

    for k in known:
        if k["class"] in confirmed and k["class"] not in [c for c, _ in known_printed]:
            known_printed.append((k["class"], k["what"]))

    for cls, what in known_printed:
        print(f"KNOWN-FINDING: property={prop} {what}")
    for ln in lines:
        print(ln)
    shown = {}
    for p, f in violations:
        key = (f.get("harness"), f.get("clause"))
        shown[key] = shown.get(key, 0) + 1
        if shown[key] > 2:
            continue          # further violations of the same clause are counted and have replay files, not printed
        tail = " no-failing-input-found" if f.get("nofail") else ""
        print(f"VIOLATION property={prop} replay={p}{tail}")
        if not f.get("nofail"):
            print(f"  clause: {f.get('clause')}\n  input: {json.dumps(f.get('input'), default=str)[:400]}\n  expected: {str(f.get('expected'))[:300]}\n  observed: {str(f.get('observed'))[:300]}")
    for d in demoted:
        print(f"DEMOTED function={d['function']} reason={str(d['reason'])[:300]}")
    for b in broken:
        print(f"CHECKER-BROKEN {b}")

    # ---- evidence
    level_decl = getattr(mod, "LEVEL", "other")
    all_discharged = total_obl > 0 and discharged == total_obl and not demoted
    level = level_decl
    if level_decl == "proof" and not all_discharged:
        level = "other"
    wall = round(time.time() - t0, 2)
    cov = {
        "obligations": total_obl, "discharged": discharged,
        "checker_cmd": f"./vcheck {prop} --tier {tier}",
        "trusted_base": list(getattr(mod, "TRUSTED", [])) + [f"pyvc VC generator ({ENGINE_VERSION}); z3 {z3_version()} finds each proof, and its `unsat` counts only when cvc5 1.0.3 or z3 4.8.12 also answers `unsat` on the same SMT-LIB text (an obligation is trusted to hold when two independently built solvers agree)"],
        "functions_under_contract": functions,
        "demoted": demoted,
        "bounded": bounded_summ,
        "evaluations": max(evaluations, 0), "distinct_nontrivial": distinct,
        "rule": "; ".join(sorted({b["rule"] for b in bounded_summ if b["rule"]}))[:1500] or "no bounded part",
        "samples": (samples[:6] + [{"obligation": oid, "instances": len(g), "label": g[0].get("label")} for oid, g in list(all_ids.items())[:6]]) or ["none"],
        "exhaustive": bool(bounded_summ) and all(b["exhaustive"] for b in bounded_summ),
        "known_findings_printed": [w for _, w in known_printed],
        "known_finding_obligations": known_obl_hit,
        "explanation": getattr(mod, "EXPLANATION", "") + (" | this run: all deductive obligations discharged" if all_discharged else
                                                         f" | this run: {discharged}/{total_obl} obligations discharged, demoted={len(demoted)}"),
        "solver_seconds": round(sum(v["seconds"] for f in functions for v in f["obligations"].values()), 3),
        "second_solver_seconds": round(sum(v.get("confirm_seconds", 0) for f in functions for v in f["obligations"].values()), 3),
        "discharged_by_backend": dict(sorted(by_backend.items())),
        "baseline_regressions": sorted(oid for oid in base_proved if oid not in proved_ids),
    }
    # mechanical scan: every assumed contract and assumed lemma the deductive part rests on
    scanned = []
    for k, c in contracts.items():
        if k.startswith("__"):
            continue
        if c.get("assumed"):
            scanned.append(f"assumed contract (not verified here; callers are checked against it): {k.split(':')[1]} ensures {c.get('ensures')} raises {sorted(c.get('raises', {}))}")
        for ax in c.get("axioms", []):
            scanned.append(f"assumed lemma in the proof of {k.split(':')[1]}: {ax}")
        if c.get("prop", prop) != prop and not c.get("assumed"):
            scanned.append(f"contract of {k.split(':')[1]} is the one discharged under {c.get('prop')} (callers here are checked against it"
                           + (f"; restricted to the postconditions {c.get('ensures')}" if len(c.get("ensures", [])) <= 4 else "") + ")")
        if c.get("opaque_funcs") and not c.get("assumed"):
            scanned.append(f"in the proof of {k.split(':')[1]} the list functions {list(c['opaque_funcs'])} are uninterpreted (their definitions are hidden; only what the listed lemmas state is used)")
        if c.get("dict_membership_only") and not c.get("assumed"):
            scanned.append(f"in the proof of {k.split(':')[1]} `d[k] = v` on a dictionary is modelled by membership and lookup only (the position of a new key is left unspecified: an over-approximation)")
        if c.get("dictcomp_duplicates") and not c.get("assumed"):
            scanned.append(f"in the proof of {k.split(':')[1]} a dict comprehension over a list that may repeat an element is modelled with the entry of a "
                           "repeated key left open among the values computed for it (Python keeps the last; the values differ only in object identity)")
        if c.get("decreases") and any("size" in str(a) for a in c.get("axioms", [])):
            scanned.append(f"termination of the recursion in {k.split(':')[1]} is relative to the assumed size lemma listed above")
        for ln, lp in (c.get("loops") or {}).items():
            if not c.get("assumed") and lp.get("prefix_lemma"):
                scanned.append(f"in the proof of {k.split(':')[1]} (loop {ln}) three facts about prefixes of the iterated sequence q are supplied by the engine as "
                               "hypotheses, not proved by the solvers: q[:0] has no member; q[:len(q)] == q; x in q[:i+1] iff x in q[:i] or x == q[i] (for i < len(q))")
            if not c.get("assumed") and lp.get("membership_lemma"):
                scanned.append(f"in the proof of {k.split(':')[1]} (loop {ln}) the engine supplies, as a hypothesis, that membership in the iterated sequence is "
                               "membership at some index below its length")
        if c.get("external"):
            scanned.append(f"{k.split(':')[1]} is a library function without source in the repository: its contract is a model")
    ev = {"property_id": prop, "tier": tier, "seed": seed, "level": level, "coverage": cov,
          "assumptions": list(getattr(mod, "ASSUMPTIONS", [])) + scanned, "wall_s": wall, "violations": len(violations)}
    try:
        import jsonschema
        schema = json.loads(Path("/root/.vp/EVIDENCE.schema.json").read_text())
        jsonschema.validate(ev, schema)
    except FileNotFoundError:
        pass
    except Exception as ex:
        print(f"CHECKER-BROKEN evidence does not validate: {str(ex)[:300]}")
        broken.append("evidence invalid")
    # evidence/ records runs against /repo itself; a development run against a scratch tree (PYVC_REPO) writes elsewhere
    evdir = ROOT / "evidence" if os.path.realpath(REPO) == "/repo" else ROOT / ".cache" / "evidence_scratch"
    evdir.mkdir(parents=True, exist_ok=True)
    (evdir / f"{prop}.json").write_text(json.dumps(ev, indent=1, default=str))
    print(f"{prop}: level={level} obligations={discharged}/{total_obl} functions(P)={sum(1 for f in functions if f['class']=='P')}/{len(functions)} "
          f"bounded_evals={evaluations} violations={len(violations)} known={len(known_printed)} wall={wall}s")
    if violations:
        return 1
    if broken:
        return 3
    return 0


def z3_version():
    import z3
    return z3.get_version_string()


def main():
    ap = argparse.ArgumentParser()
    ap.add_argument("prop", nargs="?")
    ap.add_argument("--tier", default=os.environ.get("VERIF_TIER", "quick"))
    ap.add_argument("--replay")
    ap.add_argument("--rebaseline", action="store_true")
    ap.add_argument("--jobs", type=int)
    a = ap.parse_args()
    if a.replay:
        sys.exit(replay(a.replay))
    seed = int(os.environ.get("VERIF_SEED", "0"))
    sys.exit(check_property(a.prop.upper(), a.tier, seed, a.rebaseline, a.jobs))


if __name__ == "__main__":
    main()
