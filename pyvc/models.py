"""Class model: heap fields (and their sorts) of repository classes and of library containers.

The field lists of repository classes are cross-checked against the class bodies in /repo on
every run (check_class_model): a field the model needs and the source no longer assigns or
annotates marks every function that touches the class as 'model out of date' (demoted to B).
"""
import ast
from . import source

# type descriptors: 'int' 'real' 'bool' 'str' 'sexp' 'slist' 'tree' ('ref', cls) ('seq', ty) ('map', kty, vty)
CLASSES = {
    # library containers ---------------------------------------------------------------------------
    "deque": {"fields": {"items": ("seq", "str")}, "bases": [], "lib": True},
    "list_str": {"fields": {"items": ("seq", "str")}, "bases": [], "lib": True},
    "list_ref": {"fields": {"items": ("seq", "int")}, "bases": [], "lib": True},
    "list_ActionCall": {"fields": {"items": ("seq", ("ref", "ActionCall"))}, "bases": [], "lib": True},
    # ordered dict  str -> ref : key order + content; membership == Contains(keys, Unit(k)); keys distinct
    "dict_str_ref": {"fields": {"keys": ("seq", "str"), "map": ("map", "str", "int")}, "bases": [], "lib": True},
    "dict_PDDLObject": {"fields": {"keys": ("seq", "str"), "map": ("map", "str", "int")}, "bases": [], "lib": True, "elem": "PDDLObject"},
    "dict_PDDLType": {"fields": {"keys": ("seq", "str"), "map": ("map", "str", "int")}, "bases": [], "lib": True, "elem": "PDDLType"},
    "dict_Predicate": {"fields": {"keys": ("seq", "str"), "map": ("map", "str", "int")}, "bases": [], "lib": True, "elem": "Predicate"},
    "dict_PDDLFunction": {"fields": {"keys": ("seq", "str"), "map": ("map", "str", "int")}, "bases": [], "lib": True, "elem": "PDDLFunction"},
    "set_GroundedPredicate": {"fields": {"items": ("seq", ("ref", "GroundedPredicate"))}, "bases": [], "lib": True},
    "dict_set_GroundedPredicate": {"fields": {"keys": ("seq", "str"), "map": ("map", "str", "int")}, "bases": [], "lib": True,
                                   "elem": "set_GroundedPredicate"},
    "dict_str_str": {"fields": {"keys": ("seq", "str"), "map": ("map", "str", "str")}, "bases": [], "lib": True},
    # repository classes ---------------------------------------------------------------------------
    "PDDLTokenizer": {"fields": {"pddl_file_content": ("ref", "list_str")}, "bases": [],
                      "src": ("lisp_parsers.pddl_tokenizer", "PDDLTokenizer")},
    "PDDLType": {"fields": {"name": "str", "parent": ("ref", "PDDLType")}, "bases": [],
                 "src": ("models.pddl_type", "PDDLType")},
    "PDDLObject": {"fields": {"name": "str", "type": ("ref", "PDDLType")}, "bases": [],
                   "src": ("models.pddl_object", "PDDLObject")},
    "PDDLFunction": {"fields": {"name": "str", "signature": ("ref", "dict_str_ref"), "stored_value": "real",
                                "repeating_variables": ("ref", "dict_str_ref")}, "bases": [],
                     "src": ("models.pddl_function", "PDDLFunction")},
    "Predicate": {"fields": {"name": "str", "signature": ("ref", "dict_str_ref"), "is_positive": "bool"},
                  "bases": [], "src": ("models.pddl_predicate", "Predicate")},
    "GroundedPredicate": {"fields": {"object_mapping": ("ref", "dict_str_str"), "is_masked": "bool"},
                          "bases": ["Predicate"], "src": ("models.pddl_predicate", "GroundedPredicate")},
    "NumericalExpressionTree": {"fields": {"root": "tree"}, "bases": [],
                                "src": ("models.numerical_expression", "NumericalExpressionTree")},
    "State": {"fields": {"is_init": "bool", "state_predicates": ("ref", "dict_set_GroundedPredicate"),
                         "state_fluents": ("ref", "dict_PDDLFunction")}, "bases": [],
              "src": ("models.pddl_state", "State")},
    "opaque": {"fields": {}, "bases": [], "lib": True},
    "NOPOperator": {"fields": {}, "bases": [], "src": ("models.pddl_operator", "NOPOperator")},
    "JointActionCall": {"fields": {"actions": ("ref", "list_ActionCall")}, "bases": [], "src": ("models.action_call", "JointActionCall")},
    "ObservedComponent": {"fields": {"previous_state": ("ref", "State"), "grounded_action_call": ("ref", "ActionCall"), "next_state": ("ref", "State")},
                          "bases": [], "src": ("models.observation", "ObservedComponent")},
    "MultiAgentComponent": {"fields": {"previous_state": ("ref", "State"), "grounded_joint_action": ("ref", "JointActionCall"), "next_state": ("ref", "State")},
                            "bases": [], "src": ("models.observation", "MultiAgentComponent")},
    "list_ObservedComponent": {"fields": {"items": ("seq", ("ref", "ObservedComponent"))}, "bases": [], "lib": True},
    "list_MultiAgentComponent": {"fields": {"items": ("seq", ("ref", "MultiAgentComponent"))}, "bases": [], "lib": True},
    "Observation": {"fields": {"components": ("ref", "list_ObservedComponent"), "grounded_objects": ("ref", "dict_PDDLObject")}, "bases": [],
                    "src": ("models.observation", "Observation")},
    "MultiAgentObservation": {"fields": {"components": ("ref", "list_MultiAgentComponent"), "grounded_objects": ("ref", "dict_PDDLObject"),
                                         "agents_in_observation": ("ref", "list_str")}, "bases": [],
                              "src": ("models.observation", "MultiAgentObservation")},
    "TrajectoryParser": {"fields": {"partial_domain": ("ref", "Domain"), "problem": ("ref", "Problem"), "logger": ("ref", "opaque")}, "bases": [],
                         "src": ("lisp_parsers.trajectory_parser", "TrajectoryParser")},
    "PlanConverter": {"fields": {"ma_domain": ("ref", "Domain"), "logger": ("ref", "opaque")}, "bases": [],
                      "src": ("multi_agent.single_agent_plan_converter", "PlanConverter")},
    "Path": {"fields": {"stem": "str"}, "bases": [], "lib": True},
    "MultiAgentDomainsConverter": {"fields": {"logger": ("ref", "opaque"), "domains_directory_path": ("ref", "Path")}, "bases": [],
                                   "src": ("multi_agent.multi_agent_domain_converter", "MultiAgentDomainsConverter")},
    "Domain": {"fields": {"name": "str", "requirements": ("ref", "list_str"), "types": ("ref", "dict_PDDLType"), "constants": ("ref", "dict_PDDLObject"),
                          "predicates": ("ref", "dict_Predicate"), "functions": ("ref", "dict_str_ref"), "actions": ("ref", "dict_str_ref")},
               "bases": [], "src": ("models.pddl_domain", "Domain")},
    "ProblemParser": {"fields": {"domain": ("ref", "Domain"), "problem": ("ref", "Problem")}, "bases": [],
                      "src": ("lisp_parsers.problem_parser", "ProblemParser")},
    "TrajectoryExporter": {"fields": {"domain": ("ref", "Domain"), "allow_invalid_actions": "bool"}, "bases": [],
                           "src": ("exporters.numeric_trajectory_exporter", "TrajectoryExporter")},
    "TrajectoryTriplet": {"fields": {"previous_state": ("ref", "State"), "operator": ("ref", "opaque"), "next_state": ("ref", "State")},
                          "bases": [], "src": ("exporters.numeric_trajectory_exporter", "TrajectoryTriplet")},
    "Problem": {"fields": {"objects": ("ref", "dict_PDDLObject"), "initial_state_predicates": ("ref", "dict_set_GroundedPredicate"),
                           "initial_state_fluents": ("ref", "dict_PDDLFunction")}, "bases": [], "src": ("models.pddl_problem", "Problem")},
    "Action": {"fields": {"name": "str", "signature": ("ref", "dict_str_ref"), "preconditions": ("ref", "CompoundPrecondition"),
                          "discrete_effects": ("ref", "opaque"), "numeric_effects": ("ref", "opaque"),
                          "conditional_effects": ("ref", "opaque"), "universal_effects": ("ref", "opaque")}, "bases": [],
               "src": ("models.pddl_action", "Action")},
    "ActionCall": {"fields": {"name": "str", "parameters": ("ref", "list_str")}, "bases": [], "src": ("models.action_call", "ActionCall")},
    "Operator": {"fields": {"action": ("ref", "Action"), "domain": ("ref", "Domain"), "grounded_call_objects": ("ref", "list_str"),
                            "grounded": "bool", "problem_objects": ("ref", "opaque"), "grounded_effects": ("ref", "set_GroundedEffect"),
                            "lifted_universal_effects": ("ref", "opaque"), "logger": ("ref", "opaque"),
                            "grounded_preconditions": ("ref", "GroundedPrecondition")}, "bases": [], "src": ("models.pddl_operator", "Operator")},
    "MultiAgentTrajectoryExporter": {"fields": {"domain": ("ref", "Domain"), "allow_invalid_actions": "bool"}, "bases": [],
                                     "src": ("multi_agent.multi_agent_trajectory_exporter", "MultiAgentTrajectoryExporter")},
    "MultiAgentTrajectoryTriplet": {"fields": {"previous_state": ("ref", "State"), "joint_action": ("ref", "opaque"), "next_state": ("ref", "State")},
                                    "bases": [], "src": ("multi_agent.multi_agent_trajectory_exporter", "MultiAgentTrajectoryTriplet")},
    "set_pairs": {"fields": {"items": ("seq", ("tuple", ("str", "str")))}, "bases": [], "lib": True},
    "Precondition": {"fields": {"binary_operator": "str", "operands": ("ref", "opaque"), "equality_preconditions": ("ref", "set_pairs"),
                                "inequality_preconditions": ("ref", "set_pairs")}, "bases": [],
                     "src": ("models.pddl_precondition", "Precondition")},
    "CompoundPrecondition": {"fields": {"root": ("ref", "Precondition")}, "bases": [], "src": ("models.pddl_precondition", "CompoundPrecondition")},
    "GroundedPrecondition": {"fields": {"_lifted_precondition": ("ref", "CompoundPrecondition"), "_grounded_precondition": ("ref", "CompoundPrecondition"),
                                        "domain": ("ref", "Domain"), "action": ("ref", "Action"), "logger": ("ref", "opaque"),
                                        "_parameter_map": ("ref", "dict_str_str")}, "bases": [],
                             "src": ("models.grounded_precondition", "GroundedPrecondition")},
    "set_GroundedEffect": {"fields": {"items": ("seq", ("ref", "GroundedEffect"))}, "bases": [], "lib": True},
    "GroundedEffect": {"fields": {"grounded_antecedents": ("ref", "opaque")}, "bases": [], "src": ("models.grounded_effect", "GroundedEffect")},
    "PreconditionsParser": {"fields": {}, "bases": [], "src": ("lisp_parsers.preconditions_parser", "PreconditionsParser")},
    "DomainParser": {"fields": {"preconditions_parser": ("ref", "PreconditionsParser"), "partial_parsing": "bool"}, "bases": [],
                     "src": ("lisp_parsers.domain_parser", "DomainParser")},
    "ENHSPParser": {"fields": {}, "bases": [], "src": ("exporters.enhsp_output_parser", "ENHSPParser")},
    "MetricFFParser": {"fields": {}, "bases": [], "src": ("exporters.ff_output_parser", "MetricFFParser")},
}


# module-level aliases of classes (`PDDLConstant = PDDLObject`)
ALIASES = {"PDDLConstant": "PDDLObject"}


def field_owner(cls, field):
    """(owner class, type) of a field, searching base classes."""
    seen = [cls]
    while seen:
        c = seen.pop(0)
        m = CLASSES.get(c)
        if m is None:
            return None
        if field in m["fields"]:
            return c, m["fields"][field]
        seen.extend(m["bases"])
    return None


def is_subclass(c, base):
    if c == base:
        return True
    m = CLASSES.get(c)
    return bool(m) and any(is_subclass(b, base) for b in m["bases"])


def check_class_model():
    """Compare the model with /repo: returns {cls: [missing fields]} (empty when up to date)."""
    out = {}
    for cls, m in CLASSES.items():
        if "src" not in m:
            continue
        mod, cname = m["src"]
        try:
            _, tree = source.load_module(mod)
        except FileNotFoundError:
            out[cls] = ["<module missing>"]
            continue
        cdef = next((n for n in tree.body if isinstance(n, ast.ClassDef) and n.name == cname), None)
        if cdef is None:
            out[cls] = ["<class missing>"]
            continue
        have = set()
        for n in ast.walk(cdef):
            if isinstance(n, ast.AnnAssign) and isinstance(n.target, ast.Name):
                have.add(n.target.id)
            if isinstance(n, ast.Attribute) and isinstance(n.value, ast.Name) and n.value.id == "self" \
                    and isinstance(n.ctx, ast.Store):
                have.add(n.attr)
        missing = [f for f in m["fields"] if f not in have]
        if missing:
            out[cls] = missing
    return out
