"""Statement execution, loops (invariants), contract application and the per-function driver."""
import ast
import z3
from .core import Val, Raise, State, Unsupported, fresh_const, bound_var, exc_matches
from .sorts import sort_of, SExp, SList, Tree, I, sv
from . import models, source

TRUE = z3.BoolVal(True)
FALSE = z3.BoolVal(False)
NONE = Val(z3.IntVal(0), "none")


def is_ref(ty):
    return isinstance(ty, tuple) and ty[0] == "ref"


def stored_names(nodes):
    """Names (re)bound inside a loop body: assignment targets, for-targets, and receivers of
    in-place list methods on local values."""
    out = set()
    for n in nodes:
        for x in ast.walk(n):
            if isinstance(x, ast.Name) and isinstance(x.ctx, ast.Store):
                out.add(x.id)
            if isinstance(x, ast.Call) and isinstance(x.func, ast.Attribute) and isinstance(x.func.value, ast.Name) \
                    and x.func.attr in ("append", "extend", "add", "pop", "popleft", "update", "remove", "discard", "insert"):
                out.add(x.func.value.id)
            if isinstance(x, ast.Call) and isinstance(x.func, ast.Name) and x.func.id == "next" and x.args \
                    and isinstance(x.args[0], ast.Name):
                out.add(x.args[0].id)
    return out


class StmtMixin:
    # ------------------------------------------------------------------ blocks
    def exec_block(self, stmts, st):
        if not stmts:
            yield st, ("normal",)
            return
        for st1, flow in self.exec_stmt(stmts[0], st):
            if flow[0] == "normal":
                yield from self.exec_block(stmts[1:], st1)
            else:
                yield st1, flow

    def exec_stmt(self, n, st):
        self.paths += 1
        if self.paths > self.budget_paths:
            raise Unsupported("path budget exceeded")
        if source.is_logging_call(n):
            if not source.logging_args_pure(n, self.c.get("pure_calls", {"str", "len", "serialize", "to_pddl"})):
                raise Unsupported(f"logging call with impure arguments at line {n.lineno}")
            yield st, ("normal",)
            return
        if isinstance(n, ast.Expr):
            if isinstance(n.value, ast.Constant):      # docstring
                yield st, ("normal",)
                return
            for st1, v in self.ev(n.value, st):
                yield st1, (("raise", v) if isinstance(v, Raise) else ("normal",))
            return
        m = getattr(self, "st_" + type(n).__name__, None)
        if m is None:
            raise Unsupported(f"statement {type(n).__name__} at line {n.lineno}")
        yield from m(n, st)

    def st_Pass(self, n, st):
        yield st, ("normal",)

    def st_Return(self, n, st):
        if n.value is None:
            yield st, ("return", NONE)
            return
        for st1, v in self.ev(n.value, st):
            yield st1, (("raise", v) if isinstance(v, Raise) else ("return", v))

    def st_Raise(self, n, st):
        if n.exc is None:
            raise Unsupported("bare raise")
        for st1, v in self.ev(n.exc, st):
            if isinstance(v, Raise):
                yield st1, ("raise", v)
            elif v.ty == "exc":
                yield st1, ("raise", Raise(v.py, n.lineno))
            else:
                raise Unsupported("raise of non-exception")

    def st_Assert(self, n, st):
        for st1, v in self.ev(n.test, st):
            if isinstance(v, Raise):
                yield st1, ("raise", v)
                continue
            c = self.truthy(v, st1)
            s_bad = st1.assume(z3.Not(c))
            if self.feasible(s_bad):
                yield s_bad, ("raise", Raise("AssertionError", n.lineno))
            s_ok = st1.assume(c)
            if self.feasible(s_ok):
                yield s_ok, ("normal",)

    def st_Break(self, n, st):
        yield st, ("break",)

    def st_Continue(self, n, st):
        yield st, ("continue",)

    def st_If(self, n, st):
        for st1, v in self.ev(n.test, st):
            if isinstance(v, Raise):
                yield st1, ("raise", v)
                continue
            c = self.truthy(v, st1)
            taken = 0
            for body, cond in ((n.body, c), (n.orelse, z3.Not(c))):
                s2 = st1.assume(cond)
                if self.feasible(s2):
                    taken += 1
                    s2.trace.append((n.lineno, "then" if body is n.body else "else"))
                    yield from self.exec_block(body, s2)
                else:
                    self.dead.append((n.lineno, "then" if body is n.body else "else"))

    def st_Assign(self, n, st):
        if len(n.targets) != 1:
            raise Unsupported("multiple assignment targets")
        tgt = n.targets[0]
        for st1, v in self.ev(n.value, st):
            if isinstance(v, Raise):
                yield st1, ("raise", v)
                continue
            yield from self.assign(st1, tgt, v, n)

    def st_AnnAssign(self, n, st):
        if n.value is None:
            yield st, ("normal",)
            return
        for st1, v in self.ev(n.value, st):
            if isinstance(v, Raise):
                yield st1, ("raise", v)
                continue
            yield from self.assign(st1, n.target, v, n)

    def st_AugAssign(self, n, st):
        load = ast.copy_location(ast.Name(id=n.target.id, ctx=ast.Load()), n) if isinstance(n.target, ast.Name) else None
        if load is None:
            raise Unsupported("augmented assignment to non-name")
        for st1, vals in self.ev_list([load, n.value], st):
            if isinstance(vals, Raise):
                yield st1, ("raise", vals)
                continue
            for st2, r in self.binop(st1, n.op, vals[0], vals[1], n):
                if isinstance(r, Raise):
                    yield st2, ("raise", r)
                else:
                    yield from self.assign(st2, n.target, r, n)

    def assign(self, st, tgt, v, node):
        if isinstance(tgt, ast.Name):
            s = st.fork()
            want = self.c.get("locals", {}).get(tgt.id)
            if want is not None and is_ref(want) and v.ty in ("pydict", "pyset", "pylist") and want[1] in models.CLASSES \
                    and (v.ty != "pylist" or want[1].startswith("list_")):
                v = self.box(s, v, want)       # a container display bound to a variable declared as a heap container
            elif want is not None and is_ref(want) and want[1].startswith("list_") and isinstance(v.ty, tuple) and v.ty[0] == "seq":
                # a list value (e.g. the result of a comprehension) bound to a variable declared as a heap list: a fresh list object
                d = self.alloc(s, want[1])
                saved, self.spec_mode = self.spec_mode, 1
                try:
                    self.write_field(s, d, want[1], "items", self.coerce(v, models.CLASSES[want[1]]["fields"]["items"]), getattr(node, "lineno", None))
                finally:
                    self.spec_mode = saved
                v = d
            elif want is not None and v.ty != want:
                self.cast_guard(st, v, want, getattr(node, "lineno", None))
                v = self.coerce(v, want) if not (v.ty == "pylist" and not v.py and isinstance(want, tuple) and want[0] == "seq") \
                    else Val(z3.Empty(sort_of(want)), want)
            s.env[tgt.id] = v
            yield s, ("normal",)
            return
        if isinstance(tgt, (ast.Tuple, ast.List)):
            if v.ty not in ("tuple", "pylist") or len(v.py) != len(tgt.elts):
                raise Unsupported("unpacking of symbolic-length value")
            s = st
            for t, x in zip(tgt.elts, v.py):
                (s, fl), = list(self.assign(s, t, x, node))
            yield s, ("normal",)
            return
        if isinstance(tgt, ast.Attribute):
            for st1, base in self.ev(tgt.value, st):
                if isinstance(base, Raise):
                    yield st1, ("raise", base)
                    continue
                if not is_ref(base.ty):
                    raise Unsupported(f"attribute store on {base.ty}")
                s = st1.fork()
                self.write_field(s, base, base.ty[1], tgt.attr, v, node.lineno)
                yield s, ("normal",)
            return
        if isinstance(tgt, ast.Subscript) and not isinstance(tgt.slice, ast.Slice):
            # d[k] = v on a heap dictionary: k keeps its position if present, is appended otherwise
            for st1, vals in self.ev_list([tgt.value, tgt.slice], st):
                if isinstance(vals, Raise):
                    yield st1, ("raise", vals)
                    continue
                base, idx = vals
                if not (is_ref(base.ty) and base.ty[1].startswith("dict_")):
                    raise Unsupported(f"subscript store on {base.ty}")
                cls = base.ty[1]
                s = st1.fork()
                ks = self.read_field(s, base, cls, "keys")
                mp = self.read_field(s, base, cls, "map")
                kt = self.coerce(idx, ks.ty[1]).t
                if v.ty in ("pydict", "pyset", "pylist"):
                    elem = models.CLASSES[cls].get("elem") or self.c.get("dict_values", {}).get(cls, "opaque")
                    v = self.box(s, v, ("ref", elem))
                newkeys = fresh_const("skeys", ks.t.sort())
                xk = bound_var("xk", kt.sort())
                if not self.c.get("dict_membership_only"):
                    s.conds.append(newkeys == z3.If(z3.Contains(ks.t, z3.Unit(kt)), ks.t, z3.Concat(ks.t, z3.Unit(kt))))
                # (consequences, stated so that membership / index reasoning does not depend on the sequence solver)
                s.conds.append(z3.ForAll([xk], z3.Contains(newkeys, z3.Unit(xk)) == z3.Or(z3.Contains(ks.t, z3.Unit(xk)), xk == kt)))
                if not self.c.get("dict_membership_only"):
                    present = z3.Contains(ks.t, z3.Unit(kt))
                    n0 = z3.Length(ks.t)
                    jj = bound_var("kj", I)
                    w = fresh_const("kw", I)
                    s.conds.append(z3.Length(newkeys) == z3.If(present, n0, n0 + 1))
                    s.conds.append(z3.ForAll([jj], z3.Implies(z3.And(jj >= 0, jj < n0), newkeys[jj] == ks.t[jj]), patterns=[newkeys[jj]]))
                    s.conds.append(z3.Implies(z3.Not(present), newkeys[n0] == kt))
                    # present <=> some position holds the key
                    s.conds.append(z3.Implies(present, z3.And(w >= 0, w < n0, ks.t[w] == kt)))
                    s.conds.append(z3.ForAll([jj], z3.Implies(z3.And(jj >= 0, jj < n0, ks.t[jj] == kt), present)))
                self.write_field(s, base, cls, "keys", Val(newkeys, ks.ty), node.lineno)
                self.write_field(s, base, cls, "map", Val(z3.Store(mp.t, kt, self.coerce(v, mp.ty[2]).t), mp.ty), node.lineno)
                yield s, ("normal",)
            return
        raise Unsupported(f"assignment target {type(tgt).__name__}")

    def st_With(self, n, st):
        """`with open(path, mode) as f:` — the file's content is a symbolic list of lines, a function of the path."""
        if len(n.items) != 1 or n.items[0].optional_vars is None or not isinstance(n.items[0].optional_vars, ast.Name):
            raise Unsupported("with statement shape")
        ce = n.items[0].context_expr
        if not (isinstance(ce, ast.Call) and isinstance(ce.func, ast.Name) and ce.func.id == "open"):
            raise Unsupported("with on something that is not open()")
        for st1, path in self.ev(ce.args[0], st):
            if isinstance(path, Raise):
                yield st1, ("raise", path)
                continue
            s = st1.fork()
            s.env[n.items[0].optional_vars.id] = Val(path.t, "file")
            yield from self.exec_block(n.body, s)

    def st_Try(self, n, st):
        if n.finalbody or n.orelse:
            raise Unsupported("try/finally/else")
        for st1, flow in self.exec_block(n.body, st):
            if flow[0] != "raise":
                yield st1, flow
                continue
            exc = flow[1]
            handled = False
            for h in n.handlers:
                names = []
                if h.type is None:
                    names = ["BaseException"]
                elif isinstance(h.type, ast.Name):
                    names = [h.type.id]
                elif isinstance(h.type, ast.Tuple):
                    names = [x.id for x in h.type.elts]
                if any(exc_matches(exc.name, nm) for nm in names):
                    if h.name:
                        raise Unsupported("except ... as name")
                    handled = True
                    yield from self.exec_block(h.body, st1)
                    break
            if not handled:
                yield st1, flow

    # ------------------------------------------------------------------ loops
    def loop_spec(self, node):
        k = self.loop_ordinals[id(node)]
        spec = self.c.get("loops", {}).get(k)
        if spec is None:
            raise Unsupported(f"loop #{k} at line {node.lineno} has no invariant")
        return k, spec

    def havoc_for_loop(self, st, node, spec, extra_names=()):
        s = st.fork()
        names = stored_names(node.body) | set(extra_names)
        for nm in names:
            if nm in s.env:
                v = s.env[nm]
                if v.ty == "iter":
                    seq, pos = v.py
                    p = fresh_const(nm + "_pos", I)
                    s.conds.append(z3.And(p >= 0, p <= z3.Length(seq.t)))
                    s.env[nm] = Val(None, "iter", (seq, p))
                elif v.t is not None and v.ty not in ("pylist", "tuple"):
                    s.env[nm] = Val(fresh_const(nm, v.t.sort()), v.ty)
                elif v.ty == "none":
                    pass
                else:
                    raise Unsupported(f"loop modifies python-level value {nm}:{v.ty} (declare its sort in locals)")
        mods = spec.get("modifies", self.c.get("modifies", []))
        for m in mods:
            key = m.split("[")[0]
            owner, field = key.split(".")
            fty = models.CLASSES[owner]["fields"][field]
            arr = self.heap_arr(s, owner, field, fty)
            if "[" in m:
                expr = m[m.index("[") + 1:-1]
                ref = self.eval_spec(expr, s, s.entry)
                s.heap[key] = z3.Store(arr, ref.t, fresh_const("hv", sort_of(fty)))
            else:
                newarr = fresh_const("H_" + key.replace(".", "_"), arr.sort())
                # objects allocated before the function entry keep their value unless listed; handled by frame
                s.heap[key] = newarr
        if any(isinstance(x, ast.Call) for b in node.body for x in ast.walk(b)):
            t = fresh_const("top", I)
            s.conds.append(t >= st.top)
            s.top = t
        return s

    def check_invariants(self, st, k, spec, kind, extra_env, line):
        for j, inv in enumerate(spec.get("invariants", [])):
            g = self.eval_spec(inv, st, st.entry, extra_env)
            self.oblige(st, kind, inv, self.truthy(g), line, ordinal=f"L{k}.{j}")

    def assume_invariants(self, st, spec, extra_env):
        s = st
        for inv in spec.get("invariants", []):
            g = self.eval_spec(inv, s, s.entry, extra_env)
            s = s.assume(self.truthy(g))
        return s

    def st_While(self, n, st):
        if n.orelse:
            raise Unsupported("while/else")
        k, spec = self.loop_spec(n)
        st = st.fork()
        st.ghost["__loop_entry__"] = st
        self.check_invariants(st, k, spec, "inv-init", {}, n.lineno)
        h = self.havoc_for_loop(st, n, spec)
        h = self.assume_invariants(h, spec, {})
        var0 = self.eval_spec(spec["decreases"], h, h.entry) if "decreases" in spec else None
        if not self.feasible(h):
            return
        for st1, c in self.ev(n.test, h):
            if isinstance(c, Raise):
                yield st1, ("raise", c)
                continue
            ct = self.truthy(c, st1)
            s_exit = st1.assume(z3.Not(ct))
            if self.feasible(s_exit):
                yield s_exit, ("normal",)
            s_in = st1.assume(ct)
            if not self.feasible(s_in):
                continue
            for st2, flow in self.exec_block(n.body, s_in):
                if flow[0] in ("normal", "continue"):
                    self.check_invariants(st2, k, spec, "inv-pres", {}, n.lineno)
                    if var0 is not None:
                        v1 = self.eval_spec(spec["decreases"], st2, st2.entry)
                        self.oblige(st2, "variant", "loop variant", z3.And(v1.t >= 0, v1.t < var0.t), n.lineno, ordinal=f"L{k}")
                elif flow[0] == "break":
                    yield st2, ("normal",)
                else:
                    yield st2, flow

    def st_For(self, n, st):
        if n.orelse:
            raise Unsupported("for/else")
        if isinstance(n.iter, ast.Call) and isinstance(n.iter.func, ast.Name) and n.iter.func.id == "enumerate" and len(n.iter.args) == 1 \
                and isinstance(n.target, ast.Tuple) and len(n.target.elts) == 2 and isinstance(n.target.elts[0], ast.Name):
            # for index, x in enumerate(seq): the index variable is the loop position
            for st1, it in self.ev(n.iter.args[0], st):
                if isinstance(it, Raise):
                    yield st1, ("raise", it)
                    continue
                yield from self.for_symbolic(n, st1, it, index_name=n.target.elts[0].id, elem_target=n.target.elts[1])
            return
        if isinstance(n.iter, ast.Call) and isinstance(n.iter.func, ast.Name) and n.iter.func.id == "range" and 1 <= len(n.iter.args) <= 3 \
                and not n.iter.keywords and isinstance(n.target, ast.Name):
            # for x in range([a,] b[, step]) with a positive constant step: iteration p (= _i) binds x = a + p*step
            step = 1
            if len(n.iter.args) == 3:
                if not (isinstance(n.iter.args[2], ast.Constant) and isinstance(n.iter.args[2].value, int) and n.iter.args[2].value > 0):
                    raise Unsupported("range with a non-constant or non-positive step")
                step = n.iter.args[2].value
            for st1, vals in self.ev_list(list(n.iter.args[:2]), st):
                if isinstance(vals, Raise):
                    yield st1, ("raise", vals)
                    continue
                if any(v.ty != "int" for v in vals):
                    raise Unsupported("range over non-integers")
                a, b = (z3.IntVal(0), vals[0].t) if len(vals) == 1 else (vals[0].t, vals[1].t)
                cnt = z3.If(b <= a, z3.IntVal(0), (b - a + (step - 1)) / step)
                yield from self.for_symbolic(n, st1, None, virtual=(cnt, lambda p, a=a: Val(a + p * step, "int")))
            return
        if isinstance(n.iter, ast.Call) and isinstance(n.iter.func, ast.Name) and n.iter.func.id == "zip" and len(n.iter.args) == 2 \
                and not n.iter.keywords and isinstance(n.target, ast.Tuple) and len(n.target.elts) == 2:
            # for a, b in zip(x, y): min(len(x), len(y)) iterations over the two sequences (a dictionary is iterated by its keys)
            for st1, vals in self.ev_list(list(n.iter.args), st):
                if isinstance(vals, Raise):
                    yield st1, ("raise", vals)
                    continue

                def as_seq(v):
                    if is_ref(v.ty) and v.ty[1].startswith("dict_"):
                        return self.read_field(st1, v, v.ty[1], "keys")
                    return self.seq_of(st1, v)
                sa, sb = as_seq(vals[0]), as_seq(vals[1])
                la, lb = z3.Length(sa.t), z3.Length(sb.t)
                cnt = z3.If(la <= lb, la, lb)
                yield from self.for_symbolic(n, st1, None, virtual=(cnt, lambda p, sa=sa, sb=sb: Val(None, "tuple", [Val(sa.t[p], sa.ty[1]), Val(sb.t[p], sb.ty[1])])))
            return
        for st1, it in self.ev(n.iter, st):
            if isinstance(it, Raise):
                yield st1, ("raise", it)
                continue
            if it.ty == "pylist":
                yield from self.unroll_for(n, st1, it.py, 0)
                continue
            if it.ty in ("slist", "sexp"):
                # for x in <list of expressions>: iteration p binds x = snth(items, p); iterating an atom (a string) is not modelled
                items = it.t
                if it.ty == "sexp":
                    s_atom = st1.assume(SExp.is_Atom(it.t))
                    if self.feasible(s_atom):
                        raise Unsupported("for loop over something that may be an atom (string)")
                    st1 = st1.assume(SExp.is_Lst(it.t))
                    items = SExp.items(it.t)
                snth, slen = self.fn("snth"), self.fn("slen")
                yield from self.for_symbolic(n, st1, None, virtual=(slen(items), lambda p, items=items: Val(snth(items, p), "sexp")))
                continue
            yield from self.for_symbolic(n, st1, it)

    def unroll_for(self, n, st, items, i):
        if i == len(items):
            yield st, ("normal",)
            return
        for s1, fl in self.assign(st, n.target, items[i], n):
            for s2, flow in self.exec_block(n.body, s1):
                if flow[0] in ("normal", "continue"):
                    yield from self.unroll_for(n, s2, items, i + 1)
                elif flow[0] == "break":
                    yield s2, ("normal",)
                else:
                    yield s2, flow

    def for_symbolic(self, n, st, it, index_name=None, elem_target=None, virtual=None):
        k, spec = self.loop_spec(n)
        itername = n.iter.id if (it is not None and it.ty == "iter" and isinstance(n.iter, ast.Name)) else None
        seq = None
        if virtual is not None:
            pos0 = z3.IntVal(0)
        elif it.ty == "iter":
            if itername is None:
                raise Unsupported("for over anonymous iterator")
            seq, pos0 = it.py
        else:
            if is_ref(it.ty) and it.ty[1].startswith("dict_"):
                seq = self.read_field(st, it, it.ty[1], "keys")
            else:
                seq = self.seq_of(st, it)
            pos0 = z3.IntVal(0)
        n_len = z3.Length(seq.t) if virtual is None else virtual[0]
        elem_at = (lambda p: Val(seq.t[p], seq.ty[1])) if virtual is None else virtual[1]
        st = st.fork()
        st.ghost["__loop_entry__"] = st
        env0 = {"_i": Val(pos0, "int"), "_seq": seq} if seq is not None else {"_i": Val(pos0, "int")}
        self.check_invariants(st, k, spec, "inv-init", env0, n.lineno)
        h = self.havoc_for_loop(st, n, spec, extra_names=[itername] if itername else [])
        if itername:
            pos = h.env[itername].py[1]
        else:
            pos = bound_var("_i", I)
            h.conds.append(z3.And(pos >= 0, pos <= n_len))
        envh = {"_i": Val(pos, "int"), "_seq": seq} if seq is not None else {"_i": Val(pos, "int")}
        if seq is not None and spec.get("membership_lemma"):
            # membership in the iterated sequence, related to positions (a fact about sequences that the solvers do not derive by themselves)
            from .core import fresh_name
            x = bound_var("mx", seq.t.sort().basis())
            a = bound_var("ma", I)
            w = z3.Function(fresh_name("mpos"), seq.t.sort().basis(), I)
            h.conds.append(z3.ForAll([x], z3.Implies(z3.Contains(seq.t, z3.Unit(x)), z3.And(w(x) >= 0, w(x) < z3.Length(seq.t), seq.t[w(x)] == x)),
                                     patterns=[z3.Contains(seq.t, z3.Unit(x))]))
            h.conds.append(z3.ForAll([a], z3.Implies(z3.And(a >= 0, a < z3.Length(seq.t)), z3.Contains(seq.t, z3.Unit(seq.t[a]))), patterns=[seq.t[a]]))
        if seq is not None and spec.get("prefix_lemma"):
            # facts about the prefixes of the iterated sequence (true of all sequences; the solvers do not derive them by themselves):
            # the prefix of length pos+1 has the members of the prefix of length pos plus the element at pos; the full prefix is the sequence
            px = bound_var("px", seq.t.sort().basis())
            pre = lambda n_: z3.SubSeq(seq.t, 0, n_)
            h.conds.append(z3.Implies(pos < n_len, z3.ForAll([px], z3.Contains(pre(pos + 1), z3.Unit(px)) == z3.Or(z3.Contains(pre(pos), z3.Unit(px)), seq.t[pos] == px))))
            h.conds.append(pre(n_len) == seq.t)
            h.conds.append(z3.ForAll([px], z3.Not(z3.Contains(pre(z3.IntVal(0)), z3.Unit(px)))))
        h = self.assume_invariants(h, spec, envh)
        if not self.feasible(h):
            return
        s_exit = h.assume(pos >= n_len)
        if self.feasible(s_exit):
            yield s_exit, ("normal",)
        s_in = h.assume(pos < n_len)
        if not self.feasible(s_in):
            return
        if itername:
            s_in.env[itername] = Val(None, "iter", (seq, pos + 1))
        s_in.env[f"_i{k}"] = Val(pos, "int")        # ghost: position of loop number k, visible to the invariants of loops nested in it
        if index_name is not None:
            s_in.env[index_name] = Val(pos, "int")
        for s1, fl in self.assign(s_in, elem_target if elem_target is not None else n.target, elem_at(pos), n):
            for st2, flow in self.exec_block(n.body, s1):
                if flow[0] in ("normal", "continue"):
                    nxt = st2.env[itername].py[1] if itername else pos + 1
                    envn = {"_i": Val(nxt, "int"), "_seq": seq} if seq is not None else {"_i": Val(nxt, "int")}
                    self.check_invariants(st2, k, spec, "inv-pres", envn, n.lineno)
                elif flow[0] == "break":
                    yield st2, ("normal",)
                else:
                    yield st2, flow

    # ------------------------------------------------------------------ contracts at call sites
    def bind_params(self, key, args, kwargs, st=None):
        if self.registry[key].get("external"):
            # a library function (no source in the repository): parameters in the order the assumed contract lists them
            ptypes = self.registry[key]["params"]
            bound = dict(zip(ptypes, args))
            bound.update(kwargs)
            if set(bound) != set(ptypes):
                raise Unsupported(f"call of external {key} with unexpected arguments")
            return {nm: self.coerce(v, ptypes[nm]) for nm, v in bound.items()}
        fs = source.find_function(key)
        a = fs.node.args
        names = [x.arg for x in a.args]
        c2 = self.registry[key]
        if c2.get("drop_self"):
            names = names[1:]
        bound = {}
        for nm, v in zip(names, args):
            bound[nm] = v
        for nm, v in kwargs.items():
            bound[nm] = v
        defaults = a.defaults
        dnames = [x.arg for x in a.args][len(a.args) - len(defaults):]
        for nm, d in zip(dnames, defaults):
            if nm not in bound and nm in names:
                if isinstance(d, ast.Constant):
                    bound[nm] = list(self.ev(d, State()))[0][1]
                else:
                    raise Unsupported(f"non-constant default for {nm}")
        missing = [nm for nm in names if nm not in bound]
        if missing:
            raise Unsupported(f"unbound parameters {missing} in call of {key}")
        ptypes = c2.get("params", {})
        for nm in list(bound):
            if nm in ptypes and bound[nm].ty != ptypes[nm]:
                if st is not None:
                    self.cast_guard(st, bound[nm], ptypes[nm])
                bound[nm] = self.coerce(bound[nm], ptypes[nm])
        return bound

    def call_contract(self, st, key, args, kwargs, node):
        c2 = self.registry.get(key)
        if c2 is None:
            raise Unsupported(f"no contract for callee {key}")
        line = getattr(node, "lineno", None)
        short = key.split(":")[1]
        bound = self.bind_params(key, args, kwargs, st)
        pre = st.fork()
        pre.env = dict(bound)
        pre.entry = pre
        # preconditions
        for j, req in enumerate(c2.get("requires", [])):
            g = self.eval_spec(req, pre, pre)
            ob_st = st.fork()
            self.oblige(ob_st, "pre@call", f"{short}: {req}", self.truthy(g), line, ordinal=f"{short}.{j}")
        # recursion: variant
        if key == self.f.key and "decreases_structural" in self.c:
            # structural recursion on an ADT value: the argument is a direct component of the entry parameter
            # (well-foundedness of the subterm order on finite trees is a meta-theorem of the ADT theory)
            pn = self.c["decreases_structural"]
            a, p0 = bound[pn], self.entry.env[pn]
            if a.ty == "tree":
                g = z3.And(Tree.is_Op(p0.t), z3.Or(a.t == Tree.l(p0.t), a.t == Tree.r(p0.t)))
            else:
                raise Unsupported("structural variant on non-tree")
            self.oblige(st, "variant", "recursive call on a direct subtree of the parameter", g, line, ordinal="rec")
        if key == self.f.key and "decreases" in self.c:
            m_call = self.eval_spec(self.c["decreases"], pre, pre)
            m_entry = self.eval_spec(self.c["decreases"], self.entry, self.entry)
            self.oblige(st, "variant", "recursive call decreases the measure",
                        z3.And(m_call.t >= 0, m_call.t < m_entry.t), line, ordinal="rec")
        # effect on the heap
        def havocked(base):
            post = base.fork()
            for m in c2.get("modifies", []):
                k2 = m.split("[")[0]
                owner, field = k2.split(".")
                fty = models.CLASSES[owner]["fields"][field]
                arr = self.heap_arr(post, owner, field, fty)
                if not self.spec_mode:
                    pass
                if "[" in m:
                    expr = m[m.index("[") + 1:-1]
                    ref = self.eval_spec(expr, pre, pre)
                    self.frame_check(post, k2, ref.t, line)
                    post.heap[k2] = z3.Store(arr, ref.t, fresh_const("hv", sort_of(fty)))
                else:
                    if k2 not in [x.split("[")[0] for x in self.c.get("modifies", []) if "[" not in x]:
                        # callee may write the whole field: caller must be allowed to as well
                        self.oblige(post, "frame", f"callee {short} modifies {k2}", FALSE, line)
                    post.heap[k2] = fresh_const("H_" + k2.replace(".", "_"), arr.sort())
            if c2.get("allocates", True):
                t = fresh_const("top", I)
                post.conds.append(t >= base.top)
                post.top = t
            return post
        post = havocked(st)
        for nm_, v_ in bound.items():
            post.ghost[f"arg:{short}.{nm_}"] = v_          # ghost: the arguments of the (last) call of this callee
        rty = c2.get("returns", "none")
        if rty == "none":
            res = NONE
        else:
            res = Val(fresh_const("res", sort_of(rty)), rty)
            if is_ref(rty):
                post.conds.append(z3.And(res.t >= (0 if c2.get("returns_optional") else 1), res.t <= post.top))
        sp = post.fork()
        sp.env = dict(bound)
        sp.env["result"] = res
        sp.entry = pre
        for ens in c2.get("ensures", []):
            g = self.eval_spec(ens, sp, pre)
            post.conds.append(self.truthy(g))
        for mr in c2.get("must_raise", []):
            g = self.eval_spec(mr, pre, pre)
            post.conds.append(z3.Not(self.truthy(g)))
        if self.feasible(post):
            yield post, res
        for exc, cond in c2.get("raises", {}).items():
            g = self.eval_spec(cond, pre, pre)
            ex = havocked(st)
            ex.conds.append(self.truthy(g))
            if self.feasible(ex):
                yield ex, Raise(exc, line)

    # ------------------------------------------------------------------ driver
    def init_state(self):
        st = State()
        st.top = z3.Const("top0", I)
        st.conds.append(st.top >= 0)
        node = self.f.node
        names = [a.arg for a in node.args.args]
        ptypes = self.c.get("params", {})
        for nm in names:
            ty = ptypes.get(nm)
            if ty is None:
                raise Unsupported(f"no sort declared for parameter {nm}")
            if isinstance(ty, tuple) and ty[0] == "iter":
                # an iterator parameter: the underlying sequence and the position reached so far (0 <= pos <= len)
                sq = Val(z3.Const(f"p_{nm}", sort_of(("seq", ty[1]))), ("seq", ty[1]))
                pos = z3.Const(f"p_{nm}_pos", I)
                st.conds.append(z3.And(pos >= 0, pos <= z3.Length(sq.t)))
                st.env[nm] = Val(None, "iter", (sq, pos))
                continue
            v = Val(z3.Const(f"p_{nm}", sort_of(ty)), ty)
            st.env[nm] = v
            if is_ref(ty):
                lo = 0 if nm in self.c.get("optional", ()) else 1
                st.conds.append(z3.And(v.t >= lo, v.t <= st.top))
        for gname, spec in self.c.get("globals", {}).items():
            if spec[0] == "symbolic" and spec[3]:
                g = self.make_global(gname, spec, st)
                st.env[gname] = g
                c = self.eval_spec(spec[3], st, st)
                st.conds.append(self.truthy(c))
                del st.env[gname]
            if spec[0] == "ref":
                g = self.make_global(gname, spec, st)
                st.conds.append(z3.And(g.t >= 1, g.t <= st.top))
        st.entry = st
        # `axioms`: assumed lemmas (trusted, audited by a bounded stand-in) — assumed here, never checked at call sites,
        # and listed among the unchecked assumptions of the evidence
        for req in list(self.c.get("axioms", [])) + list(self.c.get("requires", [])):
            g = self.eval_spec(req, st, st)
            st = st.assume(self.truthy(g))
            st.entry = st
        self.entry = st
        return st

    def finish(self, st, flow):
        rty = self.c.get("returns", "none")
        if flow[0] in ("normal", "return"):
            v = flow[1] if flow[0] == "return" else NONE
            if rty != "none":
                if v.ty == "none" and not is_ref(rty):
                    self.oblige(st, "post", "returns None where a value is required", FALSE, None, ordinal="type")
                    return
                self.cast_guard(st, v, rty)
                v = self.coerce(v, rty)
            env = {"result": v}
            for j, ens in enumerate(self.c.get("ensures", [])):
                g = self.eval_spec(ens, st, self.entry, env)
                self.oblige(st, "post", ens, self.truthy(g), None, ordinal=j)
            for j, mr in enumerate(self.c.get("must_raise", [])):
                g = self.eval_spec(mr, self.entry, self.entry)
                self.oblige(st, "exc", f"must raise when {mr}", z3.Not(self.truthy(g)), None, ordinal=f"must{j}")
            self.oblige(st, "canary", "normal exit reachable", None, None, ordinal=f"{len([o for o in self.obligations if o.kind == 'canary'])}", expect="sat")
        elif flow[0] == "raise":
            exc = flow[1]
            cond = None
            for nm, c in self.c.get("raises", {}).items():
                if exc_matches(exc.name, nm):
                    cond = c
                    break
            if cond is None:
                self.oblige(st, "exc", f"{exc.name} may not escape", FALSE, exc.line, ordinal=exc.name)
            else:
                g = self.eval_spec(cond, self.entry, self.entry)
                self.oblige(st, "exc", f"{exc.name} only when {cond}", self.truthy(g), exc.line, ordinal=exc.name)
        else:
            raise Unsupported(f"{flow[0]} outside loop")

    def run(self):
        from . import core
        core.reset_names()
        node = self.f.node
        # loop ordinals in source order
        self.loop_ordinals = {}
        k = 0
        for x in ast.walk(node):
            pass
        for x in sorted((y for y in ast.walk(node) if isinstance(y, (ast.For, ast.While))), key=lambda y: (y.lineno, y.col_offset)):
            self.loop_ordinals[id(x)] = k
            k += 1
        st = self.init_state()
        self.oblige(st, "cover", "precondition satisfiable", None, None, expect="sat")
        if isinstance(node, ast.Lambda):
            for st1, v in self.ev(node.body, st):
                self.finish(st1, ("raise", v) if isinstance(v, Raise) else ("return", v))
        else:
            for st1, flow in self.exec_block(node.body, st):
                self.finish(st1, flow)
        return self.obligations
