"""Call handling for pyvc: builtins, library-model methods, spec functions, contracts, lambda inlining."""
import ast
import z3
from .core import Val, Raise, Unsupported, fresh_const, bound_var, fresh_name
from .sorts import (sort_of, SExp, SList, Tree, S, Q, I, R, B, sv, SPEC_FUNCS, tval, divzero,
                    tree_refs_ok, leaf_of)
from . import models, source

TRUE = z3.BoolVal(True)
FALSE = z3.BoolVal(False)
EXC_NAMES = {"ValueError", "SyntaxError", "KeyError", "IndexError", "TypeError", "AssertionError",
             "StopIteration", "ZeroDivisionError", "AttributeError", "NotImplementedError", "RuntimeError", "Exception"}


def is_ref(ty):
    return isinstance(ty, tuple) and ty[0] == "ref"


def ev_call(self, e, st):
    f = e.func
    line = e.lineno
    # ---------------- names
    if isinstance(f, ast.Name):
        name = models.ALIASES.get(f.id, f.id)
        if name in EXC_NAMES:
            # exception constructor: arguments are evaluated (may raise) but otherwise ignored
            for st1, vals in self.ev_list([a for a in e.args if not _is_pure_str(a)], st):
                if isinstance(vals, Raise):
                    yield st1, vals
                else:
                    yield st1, Val(None, "exc", name)
            return
        if self.spec_mode:
            r = spec_call(self, name, e, st)
            if r is not None:
                yield st, r
                return
        if name in st.env and st.env[name].ty in ("lambda", "funcname"):
            for st1, vals in self.ev_list(e.args, st):
                if isinstance(vals, Raise):
                    yield st1, vals
                else:
                    yield from call_value(self, st1, st.env[name], vals, e)
            return
        ckey = self.c.get("calls", {}).get(name)
        if ckey is not None:
            for st1, vals, kw in ev_args(self, e, st):
                if isinstance(vals, Raise):
                    yield st1, vals
                    continue
                yield from self.call_contract(st1, ckey, vals, kw, e)
            return
        if name in models.CLASSES and "src" in models.CLASSES[name] and name not in self.c.get("no_inline", ()):
            for st1, vals, kw in ev_args(self, e, st):
                if isinstance(vals, Raise):
                    yield st1, vals
                    continue
                yield from construct(self, st1, name, vals, kw, e)
            return
        if name not in ("len", "isinstance", "abs", "all", "any", "float", "iter", "next", "list", "str", "set", "dict", "deque", "int", "range", "zip", "enumerate", "sorted"):
            try:
                fs_h = source.find_function(f"{self.f.mod}:{name}")
            except (KeyError, FileNotFoundError):
                fs_h = None
            if fs_h is not None and isinstance(fs_h.node, ast.FunctionDef):
                # a module-level helper without a contract: inlined (loop-free, <= 15 statements), as DESIGN §2.5 states
                for st1, vals, kw in ev_args(self, e, st):
                    if isinstance(vals, Raise):
                        yield st1, vals
                        continue
                    yield from inline_function(self, st1, fs_h, vals, kw, e)
                return
        if name == "deque" and not e.args:
            s = st.fork()
            d = self.alloc(s, "deque")
            self.write_field(s, d, "deque", "items", Val(z3.Empty(Q), ("seq", "str")), line)
            yield s, d
            return
        if name in ("set", "dict", "list") and not e.args and not e.keywords:
            s = st.fork()
            yield s, self.alloc(s, "opaque")       # an empty fresh container whose content is not modelled
            return
        if name == "set" and len(e.args) == 1 and not e.keywords:
            # set(seq): a set value — a sequence of members in an arbitrary order, possibly with repetitions (membership semantics only)
            for st1, v in self.ev(e.args[0], st):
                if isinstance(v, Raise):
                    yield st1, v
                    continue
                sq = self.seq_of(st1, v)
                yield st1, Val(sq.t, ("setv", sq.ty[1]))
            return
        if name == "dict" and len(e.args) == 1 and not e.keywords:
            # dict(d): a fresh dictionary with the same keys (same order) and entries
            for st1, v in self.ev(e.args[0], st):
                if isinstance(v, Raise):
                    yield st1, v
                    continue
                if not (is_ref(v.ty) and v.ty[1].startswith("dict_")):
                    raise Unsupported(f"dict() of {v.ty}")
                cls = v.ty[1]
                s = st1.fork()
                ks = self.read_field(s, v, cls, "keys")
                mp = self.read_field(s, v, cls, "map")
                d = self.alloc(s, cls)
                saved, self.spec_mode = self.spec_mode, 1
                try:
                    self.write_field(s, d, cls, "keys", ks, line)
                    self.write_field(s, d, cls, "map", mp, line)
                finally:
                    self.spec_mode = saved
                yield s, d
            return
        yield from builtin_call(self, name, e, st)
        return
    # ---------------- attribute calls
    if isinstance(f, ast.Attribute):
        dotted = _dotted(f)
        ckey = self.c.get("calls", {}).get(dotted) if dotted else None
        if ckey is not None:
            # static resolution through the sidecar (self.method / Class.method / module.func)
            recv = []
            if dotted.startswith("self.") and dotted.count(".") == 1 and not self.c.get("static_calls", {}).get(dotted):
                recv = [f.value]
            for st1, vals, kw in ev_args(self, e, st, first=recv):
                if isinstance(vals, Raise):
                    yield st1, vals
                    continue
                yield from self.call_contract(st1, ckey, vals, kw, e)
            return
        if dotted == "logging.getLogger":
            s = st.fork()
            yield s, self.alloc(s, "opaque")
            return
        if dotted == "math.isclose":
            yield from math_isclose(self, e, st)
            return
        if dotted == "re.sub":
            for st1, vals in self.ev_list(list(e.args[:3]), st):
                if isinstance(vals, Raise):
                    yield st1, vals
                    continue
                yield st1, Val(z3.Function("re_sub", S, S, S, S)(vals[0].t, vals[1].t, vals[2].t), "str")
            return
        if dotted == "re.search":
            # re.search(pattern, text[, flags]) is not None  <=>  re_found(pattern, text)   (uninterpreted; trusted model)
            for st1, vals in self.ev_list(list(e.args[:2]), st):
                if isinstance(vals, Raise):
                    yield st1, vals
                    continue
                found = z3.Function("re_found", S, S, B)(vals[0].t, vals[1].t)
                m = fresh_const("match", I)
                s2 = st1.assume(z3.And(m >= 0, (m != 0) == found))
                yield s2, Val(m, ("ref", "opaque"))
            return
        if isinstance(f.value, ast.Call) and isinstance(f.value.func, ast.Name) and f.value.func.id == "super":
            # super().m(...) / super(C, self).m(...): the method of the first base class (single inheritance in the model) that defines it, inlined
            sa = f.value.args
            if sa and not (len(sa) == 2 and isinstance(sa[1], ast.Name) and sa[1].id == "self"):
                raise Unsupported("super() with unusual arguments")
            cls_here = sa[0].id if sa else self.f.key.split(":")[1].split(".")[0]
            recv = st.env.get("self")
            if recv is None or cls_here not in models.CLASSES:
                raise Unsupported("super() outside a modelled class")
            fs_b = None
            todo = list(models.CLASSES[cls_here]["bases"])
            while todo and fs_b is None:
                b = todo.pop(0)
                bmod, bcls = models.CLASSES[b]["src"]
                try:
                    fs_b = source.find_function(f"{bmod}:{bcls}.{f.attr}")
                except (KeyError, FileNotFoundError):
                    todo.extend(models.CLASSES[b]["bases"])
            if fs_b is None:
                raise Unsupported(f"super().{f.attr}: no modelled base class defines it")
            for st2, vals, kw in ev_args(self, e, st):
                if isinstance(vals, Raise):
                    yield st2, vals
                    continue
                yield from inline_function(self, st2, fs_b, [recv] + vals, kw, e)
            return
        for st1, base in self.ev(f.value, st):
            if isinstance(base, Raise):
                yield st1, base
                continue
            # method of a repo object resolved by the receiver's static class
            if is_ref(base.ty):
                ck = self.c.get("calls", {}).get(f"{base.ty[1]}.{f.attr}")
                if ck is not None:
                    for st2, vals, kw in ev_args(self, e, st1):
                        if isinstance(vals, Raise):
                            yield st2, vals
                            continue
                        yield from self.call_contract(st2, ck, [base] + vals, kw, e)
                    continue
            # a private helper method of a repository class without a contract: inlined when small
            if is_ref(base.ty) and base.ty[1] in models.CLASSES and "src" in models.CLASSES[base.ty[1]] \
                    and models.field_owner(base.ty[1], f.attr) is None:
                hmod, hcls = models.CLASSES[base.ty[1]]["src"]
                try:
                    fs_h = source.find_function(f"{hmod}:{hcls}.{f.attr}")
                except (KeyError, FileNotFoundError):
                    fs_h = None
                if fs_h is not None:
                    is_static = any(isinstance(d, ast.Name) and d.id == "staticmethod" for d in fs_h.node.decorator_list)
                    is_prop = any(isinstance(d, ast.Name) and d.id == "property" for d in fs_h.node.decorator_list)
                    if not is_prop:
                        for st2, vals, kw in ev_args(self, e, st1):
                            if isinstance(vals, Raise):
                                yield st2, vals
                                continue
                            yield from inline_function(self, st2, fs_h, ([] if is_static else [base]) + vals, kw, e)
                        continue
            for st2, vals in self.ev_list(e.args, st1):
                if isinstance(vals, Raise):
                    yield st2, vals
                    continue
                yield from method_call(self, st2, base, f.attr, vals, e)
        return
    # ---------------- call of a computed value, e.g. TABLE[op](x, y)
    for st1, fv in self.ev(f, st):
        if isinstance(fv, Raise):
            yield st1, fv
            continue
        for st2, vals in self.ev_list(e.args, st1):
            if isinstance(vals, Raise):
                yield st2, vals
                continue
            yield from call_value(self, st2, fv, vals, e)


def construct(self, st, cls, args, kwargs, node):
    """ClassName(args): allocate a fresh object and execute the class's __init__ (inlined; loop-free bodies only)."""
    mod, cname = models.CLASSES[cls]["src"]
    try:
        fs = source.find_function(f"{mod}:{cname}.__init__")
    except KeyError:
        if args or kwargs:
            raise
        s = st.fork()              # a class without __init__ of its own: a fresh object with no fields set
        yield s, self.alloc(s, cls)
        return
    s = st.fork()
    obj = self.alloc(s, cls)
    for tag in models.CLASSES:
        pass
    yield from inline_function(self, s, fs, [obj] + list(args), kwargs, node, result_override=obj)


def inline_function(self, st, fs, args, kwargs, node, result_override=None):
    """Execute a callee's body in place (no contract): only loop-free bodies of <= 15 statements."""
    body = fs.node.body
    if any(isinstance(x, (ast.For, ast.While)) for b in body for x in ast.walk(b)) or len(body) > 15:
        raise Unsupported(f"callee {fs.key} is too large to inline and has no contract")
    a = fs.node.args
    if fs.key not in self.notes:
        self.notes.append(fs.key)        # reported in evidence as "inlined (no contract of its own)"
    names = [x.arg for x in a.args]
    bound = {}
    for nm, v in zip(names, args):
        bound[nm] = v
    for nm, v in kwargs.items():
        bound[nm] = v
    dnames = names[len(names) - len(a.defaults):]
    for nm, d in zip(dnames, a.defaults):
        if nm not in bound:
            if isinstance(d, ast.Constant):
                from .core import State as _S
                bound[nm] = list(self.ev(d, _S()))[0][1]
            elif isinstance(d, ast.Dict) and not d.keys:
                # mutable default `{}`: one shared module-level object (that is what it is)
                bound[nm] = Val(z3.Const(f"G_default_{fs.key.split(':')[1]}_{nm}".replace(".", "_"), I), ("ref", "dict_str_ref"))
            else:
                raise Unsupported(f"default of {nm} in inlined {fs.key}")
    missing = [nm for nm in names if nm not in bound]
    if missing:
        raise Unsupported(f"unbound parameters {missing} in inlined call of {fs.key}")
    saved = st.env
    s = st.fork()
    s.env = dict(bound)
    saved_f, saved_c = self.f, None
    for s1, flow in self.exec_block(body, s):
        s2 = s1.fork()
        s2.env = dict(saved)
        if flow[0] == "raise":
            yield s2, flow[1]
        elif flow[0] == "return":
            yield s2, (result_override if result_override is not None else flow[1])
        elif flow[0] == "normal":
            yield s2, (result_override if result_override is not None else Val(z3.IntVal(0), "none"))
        else:
            raise Unsupported("break/continue escaping an inlined body")


def ev_args(self, e, st, first=()):
    """positional (after the optional receiver expressions `first`) and keyword argument values, left to right (may fork/raise)"""
    exprs = list(first) + list(e.args) + [k.value for k in e.keywords]
    n_pos = len(first) + len(e.args)
    for st1, vals in self.ev_list(exprs, st):
        if isinstance(vals, Raise):
            yield st1, vals, None
        else:
            yield st1, vals[:n_pos], {k.arg: v for k, v in zip(e.keywords, vals[n_pos:])}


def yield_kwargs(self, e, st):
    kw = {}
    for k in e.keywords:
        res = list(self.ev(k.value, st))
        if len(res) != 1 or isinstance(res[0][1], Raise):
            raise Unsupported("forking keyword argument")
        kw[k.arg] = res[0][1]
    return kw


def _is_pure_str(a):
    return isinstance(a, (ast.Constant, ast.JoinedStr))


def _dotted(f):
    parts = []
    while isinstance(f, ast.Attribute):
        parts.append(f.attr)
        f = f.value
    if isinstance(f, ast.Name):
        parts.append(f.id)
        return ".".join(reversed(parts))
    return None


def call_value(self, st, fv, args, node):
    if fv.ty == "lambda":
        mod, table, key, lam = fv.py
        ckey = None
        if table is not None:
            ckey = self.c.get("calls", {}).get(f"{table}[{key}]")
        if ckey is not None:
            yield from self.call_contract(st, ckey, args, {}, node)
            return
        # inline the lambda body (loop-free expression)
        s = st.fork()
        saved = dict(s.env)
        for a, v in zip(lam.args.args, args):
            s.env[a.arg] = v
        for s1, r in self.ev(lam.body, s):
            s1 = s1.fork()
            for a in lam.args.args:
                if a.arg in saved:
                    s1.env[a.arg] = saved[a.arg]
                else:
                    s1.env.pop(a.arg, None)
            yield s1, r
        return
    if fv.ty == "funcname":
        mod, name = fv.py
        ckey = self.c.get("calls", {}).get(name)
        if ckey is None:
            raise Unsupported(f"call of {name} through a table without contract")
        yield from self.call_contract(st, ckey, args, {}, node)
        return
    raise Unsupported(f"call of value {fv.ty}")


# ----------------------------------------------------------------------------------------------------
def spec_call(self, name, e, st):
    """Specification-only functions: old, spec RecFunctions, quantifiers, implies, seq, heap views."""
    def one(x, s=st):
        res = list(self.ev(x, s))
        if len(res) != 1 or isinstance(res[0][1], Raise):
            raise Unsupported("forking spec argument")
        return res[0][1]
    if name == "old":
        old = st.ghost.get("__old__")
        if old is None:
            raise Unsupported("old() outside a postcondition")
        s = old.fork()
        for k, v in st.env.items():
            if k not in s.env:
                s.env[k] = v
        s.ghost["__old__"] = None
        return one(e.args[0], s)
    if name in ("iter_seq", "iter_pos"):
        v = one(e.args[0])
        if v.ty != "iter":
            raise Unsupported(f"{name}() of a non-iterator")
        return v.py[0] if name == "iter_seq" else Val(v.py[1], "int")
    if name == "at_loop_entry":
        # value of an expression in the state in which the (innermost) loop was entered; bound variables and locals that the loop does
        # not assign keep their current meaning
        le = st.ghost.get("__loop_entry__")
        if le is None:
            raise Unsupported("at_loop_entry() outside a loop invariant")
        s = le.fork()
        for k, v in st.env.items():
            if k not in s.env or k.startswith("_") or v.ty != s.env[k].ty:
                s.env[k] = v
        for k, v in st.env.items():          # variables bound by enclosing quantifiers of the specification
            if k not in le.env:
                s.env[k] = v
        s.ghost["__old__"] = st.ghost.get("__old__")
        s.ghost["__loop_entry__"] = None
        return one(e.args[0], s)
    if name in SPEC_FUNCS:
        fn, atys, rty = SPEC_FUNCS[name]
        if name in self.c.get("opaque_funcs", ()):
            from .sorts import OPAQUE_FUNCS
            fn = OPAQUE_FUNCS[name]
        args = [self.coerce(one(a), t) for a, t in zip(e.args, atys)]
        return Val(fn(*[a.t for a in args]), rty)
    if name == "call_arg":
        key = f"arg:{e.args[0].value}.{e.args[1].value}"
        if key not in st.ghost:
            raise Unsupported(f"call_arg: no recorded call {key} on this path")
        return st.ghost[key]
    if name == "implies":
        a, b = one(e.args[0]), one(e.args[1])
        return Val(z3.Implies(self.truthy(a), self.truthy(b)), "bool")
    if name == "iff":
        a, b = one(e.args[0]), one(e.args[1])
        return Val(self.truthy(a) == self.truthy(b), "bool")
    if name == "seq":
        return self.seq_of(st, one(e.args[0]))
    if name == "fresh":
        v = one(e.args[0])
        top0 = st.ghost["__old__"].top if st.ghost.get("__old__") is not None else st.entry.top
        return Val(z3.And(v.t > top0, v.t <= st.top), "bool")
    if name == "allocated":
        v = one(e.args[0])
        return Val(z3.And(v.t >= 1, v.t <= st.top), "bool")
    if name == "tval":          # value of a tree under the *current* stored values
        t = one(e.args[0])
        arr = self.heap_arr(st, "PDDLFunction", "stored_value", "real")
        return Val(tval(t.t, arr), "real")
    if name == "divzero":
        t = one(e.args[0])
        arr = self.heap_arr(st, "PDDLFunction", "stored_value", "real")
        return Val(divzero(t.t, arr), "bool")
    if name == "tree_refs_ok":
        t = one(e.args[0])
        return Val(tree_refs_ok(t.t, st.top), "bool")
    if name == "leaf_of":
        t, r = one(e.args[0]), one(e.args[1])
        return Val(leaf_of(t.t, r.t), "bool")
    if name == "absr":
        a = one(e.args[0])
        return Val(z3.If(a.t >= 0, a.t, -a.t), a.ty)
    if name in ("forall_int", "exists_int"):
        # forall_int(lambda i: body, lo, hi)   lo <= i < hi
        lam = e.args[0]
        var = lam.args.args[0].arg
        i = bound_var(var, I)
        s = st.fork()
        s.env[var] = Val(i, "int")
        lo, hi = one(e.args[1]), one(e.args[2])
        body = one(lam.body, s)
        rng = z3.And(i >= lo.t, i < hi.t)
        if name == "forall_int":
            return Val(z3.ForAll([i], z3.Implies(rng, self.truthy(body))), "bool")
        return Val(z3.Exists([i], z3.And(rng, self.truthy(body))), "bool")
    if name == "forall_slist":
        lam = e.args[0]
        var = lam.args.args[0].arg
        x = bound_var(var, SList)
        s = st.fork()
        s.env[var] = Val(x, "slist")
        body = one(lam.body, s)
        return Val(z3.ForAll([x], self.truthy(body)), "bool")
    if name in ("forall_ref", "forall_str"):
        lam = e.args[0]
        var = lam.args.args[0].arg
        if name == "forall_ref":
            cls = e.args[1].value
            x = bound_var(var, I)
            s = st.fork()
            s.env[var] = Val(x, ("ref", cls))
        else:
            x = bound_var(var, S)
            s = st.fork()
            s.env[var] = Val(x, "str")
        body = one(lam.body, s)
        return Val(z3.ForAll([x], self.truthy(body)), "bool")
    hook = self.c.get("spec_hooks", {}).get(name) or self.registry.get("__spec_hooks__", {}).get(name)
    if hook is not None:
        return hook(self, st, [one(a) for a in e.args])
    return None


# ----------------------------------------------------------------------------------------------------
def math_isclose(self, e, st):
    """math.isclose(a, b, rel_tol=1e-09, abs_tol=0.0) == |a-b| <= max(rel_tol*max(|a|,|b|), abs_tol)
    (documented definition; floats as reals, assumption A1)."""
    kw = {k.arg: k.value for k in e.keywords}
    exprs = list(e.args[:2]) + [kw[k] for k in ("rel_tol", "abs_tol") if k in kw]
    for st1, vals in self.ev_list(exprs, st):
        if isinstance(vals, Raise):
            yield st1, vals
            continue
        a, b = self.coerce(vals[0], "real").t, self.coerce(vals[1], "real").t
        rest = vals[2:]
        rel = z3.RealVal("1e-09")
        abs_tol = z3.RealVal(0)
        if "rel_tol" in kw:
            rel = self.coerce(rest.pop(0), "real").t
        if "abs_tol" in kw:
            abs_tol = self.coerce(rest.pop(0), "real").t
        ab = lambda x: z3.If(x >= 0, x, -x)
        mx = lambda x, y: z3.If(x >= y, x, y)
        yield st1, Val(ab(a - b) <= mx(rel * mx(ab(a), ab(b)), abs_tol), "bool")


def builtin_call(self, name, e, st):
    line = e.lineno
    if name == "len":
        for st1, v in self.ev(e.args[0], st):
            if isinstance(v, Raise):
                yield st1, v
                continue
            if v.ty == "pylist":
                yield st1, Val(z3.IntVal(len(v.py)), "int")
            elif v.ty == "tree_children":
                yield st1, Val(z3.If(Tree.is_Op(v.t), z3.IntVal(2), z3.IntVal(0)), "int")
            elif v.ty == "str":
                yield st1, Val(z3.Length(v.t), "int")
            elif v.ty == "slist":
                slen = self.fn("slen")
                yield st1, Val(slen(v.t), "int")
            elif v.ty == "sexp":
                slen = self.fn("slen")
                yield st1, Val(z3.If(SExp.is_Lst(v.t), slen(SExp.items(v.t)), z3.Length(SExp.s(v.t))), "int")
            elif isinstance(v.ty, tuple) and v.ty[0] == "setv":
                # cardinality of a set value: only "is it empty" is modelled (card > 0 <=> some member)
                card = fresh_const("card", I)
                yield st1.assume(z3.And(card >= 0, (card > 0) == (z3.Length(v.t) > 0))), Val(card, "int")
            elif is_ref(v.ty) and v.ty[1].startswith("dict_"):
                yield st1, Val(z3.Length(self.read_field(st1, v, v.ty[1], "keys").t), "int")
            else:
                yield st1, Val(z3.Length(self.seq_of(st1, v).t), "int")
        return
    if name == "isinstance":
        for st1, v in self.ev(e.args[0], st):
            if isinstance(v, Raise):
                yield st1, v
                continue
            yield st1, Val(isinstance_test(self, st1, v, e.args[1]), "bool")
        return
    if name == "abs":
        for st1, v in self.ev(e.args[0], st):
            if isinstance(v, Raise):
                yield st1, v
            else:
                yield st1, Val(z3.If(v.t >= 0, v.t, -v.t), v.ty)
        return
    if name in ("all", "any") and isinstance(e.args[0], (ast.ListComp, ast.GeneratorExp)) and len(e.args[0].generators) == 1 \
            and not e.args[0].generators[0].ifs:
        # all/any over a comprehension of a symbolic sequence: one bounded quantifier over the index (no intermediate list)
        comp = e.args[0]
        g = comp.generators[0]
        done = False
        for st1, it in self.ev(g.iter, st):
            if isinstance(it, Raise):
                yield st1, it
                done = True
                continue
            if it.ty == "pylist":
                break
            s = self.read_field(st1, it, it.ty[1], "keys") if (is_ref(it.ty) and it.ty[1].startswith("dict_")) else self.seq_of(st1, it)
            i = bound_var("qi", I)
            n = z3.Length(s.t)
            s2 = st1.assume(z3.And(i >= 0, i < n))
            elem = Val(s.t[i], s.ty[1])
            if isinstance(g.target, ast.Name):
                s2.env[g.target.id] = elem
            elif isinstance(g.target, ast.Tuple) and isinstance(elem.ty, tuple) and elem.ty[0] == "tuple":
                dt = sort_of(elem.ty)
                for j, nm in enumerate(g.target.elts):
                    s2.env[nm.id] = Val(dt.accessor(0, j)(elem.t), elem.ty[1][j])
            else:
                raise Unsupported("comprehension target")
            self.spec_mode += 1
            try:
                res = list(self.ev(comp.elt, s2))
            finally:
                self.spec_mode -= 1
            if len(res) != 1 or isinstance(res[0][1], Raise):
                raise Unsupported("forking element expression under all/any")
            body = self.truthy(res[0][1])
            rng = z3.And(i >= 0, i < n)
            q = z3.ForAll([i], z3.Implies(rng, body)) if name == "all" else z3.Exists([i], z3.And(rng, body))
            yield st1, Val(q, "bool")
            done = True
        if done:
            return
    if name in ("all", "any"):
        for st1, v in self.ev(e.args[0], st):
            if isinstance(v, Raise):
                yield st1, v
                continue
            if v.ty == "pylist":
                ts = [self.truthy(x) for x in v.py]
                yield st1, Val((z3.And(*ts) if ts else TRUE) if name == "all" else (z3.Or(*ts) if ts else FALSE), "bool")
            elif isinstance(v.ty, tuple) and v.ty[0] == "seq" and v.ty[1] == "bool":
                i = bound_var("qi", I)
                rng = z3.And(i >= 0, i < z3.Length(v.t))
                if name == "all":
                    yield st1, Val(z3.ForAll([i], z3.Implies(rng, v.t[i])), "bool")
                else:
                    yield st1, Val(z3.Exists([i], z3.And(rng, v.t[i])), "bool")
            else:
                raise Unsupported(f"{name}() over {v.ty}")
        return
    if name == "float":
        for st1, v in self.ev(e.args[0], st):
            if isinstance(v, Raise):
                yield st1, v
                continue
            if v.ty in ("int", "real"):
                yield st1, self.coerce(v, "real")
                continue
            if v.ty == "sexp":
                s_bad = st1.assume(z3.Not(SExp.is_Atom(v.t)))
                if self.feasible(s_bad):
                    yield s_bad, Raise("TypeError", line)
                st1 = st1.assume(SExp.is_Atom(v.t))
                v = Val(SExp.s(v.t), "str")
            if v.ty == "str":
                # float(str): uninterpreted partial function parse_float (trusted model, audited bounded)
                ok = z3.Function("parse_float_ok", S, B)
                pf = z3.Function("parse_float", S, R)
                s_bad = st1.assume(z3.Not(ok(v.t)))
                if self.feasible(s_bad):
                    yield s_bad, Raise("ValueError", line)
                s_ok = st1.assume(ok(v.t))
                if self.feasible(s_ok):
                    yield s_ok, Val(pf(v.t), "real")
                continue
            raise Unsupported(f"float({v.ty})")
        return
    if name == "iter":
        for st1, v in self.ev(e.args[0], st):
            if isinstance(v, Raise):
                yield st1, v
                continue
            if v.ty in ("slist", "sexp"):
                # iterator over a list of expressions: handed on to a callee under contract (next() on it is not modelled here)
                yield st1, Val(v.t if v.ty == "slist" else SExp.items(v.t), "slist_iter")
                continue
            s = self.seq_of(st1, v)
            yield st1, Val(None, "iter", (s, z3.IntVal(0)))
        return
    if name == "next":
        if not isinstance(e.args[0], ast.Name):
            raise Unsupported("next() on a non-name")
        it = st.env.get(e.args[0].id)
        if it is None or it.ty != "iter":
            raise Unsupported("next() on a non-iterator")
        s, pos = it.py
        s_end = st.assume(pos >= z3.Length(s.t))
        if self.feasible(s_end):
            yield s_end, Raise("StopIteration", line)
        s_ok = st.assume(pos < z3.Length(s.t))
        if self.feasible(s_ok):
            s_ok.env[e.args[0].id] = Val(None, "iter", (s, pos + 1))
            yield s_ok, Val(s.t[pos], s.ty[1])
        return
    if name == "list":
        for st1, v in self.ev(e.args[0], st):
            if isinstance(v, Raise):
                yield st1, v
            elif v.ty == "pylist":
                yield st1, v
            else:
                yield st1, self.seq_of(st1, v)
        return
    if name == "str":
        for st1, v in self.ev(e.args[0], st):
            if isinstance(v, Raise):
                yield st1, v
            elif v.ty == "str":
                yield st1, v
            elif is_ref(v.ty) and v.ty[1] == "PDDLType":
                yield st1, self.read_field(st1, v, "PDDLType", "name")
            else:
                raise Unsupported(f"str({v.ty})")
        return
    raise Unsupported(f"call of {name} at line {line}")


def isinstance_test(self, st, v, clsnode):
    names = []
    if isinstance(clsnode, ast.Tuple):
        names = [n.id for n in clsnode.elts]
    elif isinstance(clsnode, ast.Name):
        names = [clsnode.id]
    else:
        raise Unsupported("isinstance class expression")
    parts = []
    for n in names:
        if v.ty == "sexp":
            if n == "str":
                parts.append(SExp.is_Atom(v.t))
            elif n in ("list", "List"):
                parts.append(SExp.is_Lst(v.t))
            else:
                parts.append(FALSE)
        elif v.ty == "tree_value":
            if n == "PDDLFunction":
                parts.append(Tree.is_Fn(v.t))
            elif n == "float":
                parts.append(Tree.is_Num(v.t))
            elif n == "str":
                parts.append(Tree.is_Op(v.t))
            else:
                parts.append(FALSE)
        elif v.ty == "str":
            parts.append(z3.BoolVal(n == "str"))
        elif v.ty in ("pylist", "slist"):
            parts.append(z3.BoolVal(n in ("list", "List")))
        elif is_ref(v.ty):
            cls = v.ty[1]
            if models.is_subclass(cls, n):
                parts.append(v.t != 0)
            elif n in models.CLASSES and models.is_subclass(n, cls):
                tag = self.heap_arr(st, "object", "cls_" + n, "bool")
                parts.append(z3.And(v.t != 0, z3.Select(tag, v.t)))
            else:
                parts.append(FALSE)
        elif v.ty == "real":
            parts.append(z3.BoolVal(n == "float"))
        elif v.ty == "int":
            parts.append(z3.BoolVal(n == "int"))
        else:
            raise Unsupported(f"isinstance on {v.ty}")
    return z3.Or(*parts) if parts else FALSE


def method_call(self, st, base, attr, args, node):
    line = node.lineno
    if base.ty == "bound":
        base, attr0 = base.py
    if base.ty == "file":
        if attr == "readlines":
            # content of the file as a list of lines: uninterpreted function of the path (trusted model of open/readlines)
            srt = z3.SeqSort(S)
            fn = z3.Function("file_lines", base.t.sort(), srt)
            yield st, Val(fn(base.t), ("seq", "str"))
            return
        if attr == "read":
            fn = z3.Function("file_text", base.t.sort(), S)
            yield st, Val(fn(base.t), "str")
            return
        raise Unsupported(f"file.{attr}")
    # ---- str methods
    if base.ty == "str":
        if attr == "startswith":
            yield st, Val(z3.PrefixOf(args[0].t, base.t), "bool")
            return
        if attr == "endswith":
            yield st, Val(z3.SuffixOf(args[0].t, base.t), "bool")
            return
        if attr == "lower":
            lower = z3.Function("str_lower", S, S)
            yield st, Val(lower(base.t), "str")
            return
        if attr == "replace":
            # uninterpreted (chains of replace_all are undecided by both solvers): what matters is carried by audited axioms
            yield st, Val(z3.Function("str_replace", S, S, S, S)(base.t, args[0].t, args[1].t), "str")
            return
        if attr == "split" and not args:
            yield st, Val(z3.Function("str_split_ws", S, Q)(base.t), ("seq", "str"))
            return
        if attr == "strip" and not args:
            yield st, Val(z3.Function("str_strip", S, S)(base.t), "str")
            return
        raise Unsupported(f"str.{attr}")
    # ---- containers on the heap
    if is_ref(base.ty):
        cls = base.ty[1]
        if cls == "deque" or cls.startswith("list_"):
            items = self.read_field(st, base, cls, "items")
            n = z3.Length(items.t)
            if attr == "index" and len(args) == 1:
                # first position holding the value; ValueError when absent
                x = self.coerce(args[0], items.ty[1]).t
                s_no = st.assume(z3.Not(z3.Contains(items.t, z3.Unit(x))))
                if self.feasible(s_no):
                    yield s_no, Raise("ValueError", line)
                r = z3.IndexOf(items.t, z3.Unit(x), z3.IntVal(0))
                j = bound_var("ij", I)
                s_ok = st.assume(z3.And(z3.Contains(items.t, z3.Unit(x)), r >= 0, r < n, items.t[r] == x,
                                        z3.ForAll([j], z3.Implies(z3.And(j >= 0, j < r), items.t[j] != x))))
                if self.feasible(s_ok):
                    yield s_ok, Val(r, "int")
                return
            if attr == "popleft" or (attr == "pop" and args and isinstance(node.args[0], ast.Constant) and node.args[0].value == 0):
                s_bad = st.assume(n == 0)
                if self.feasible(s_bad):
                    yield s_bad, Raise("IndexError", line)
                s_ok = st.assume(n > 0)
                if self.feasible(s_ok):
                    v = Val(items.t[0], items.ty[1])
                    self.write_field(s_ok, base, cls, "items", Val(z3.SubSeq(items.t, 1, n - 1), items.ty), line)
                    yield s_ok, v
                return
            if attr == "append":
                s = st.fork()
                x = self.coerce(args[0], items.ty[1]).t
                new = fresh_const("app", items.t.sort())
                k = bound_var("k", I)
                n0 = z3.Length(items.t)
                # the appended list, named, with the index-level facts stated explicitly (quantified invariants instantiate on them)
                s.conds.append(new == z3.Concat(items.t, z3.Unit(x)))
                s.conds.append(z3.Length(new) == n0 + 1)
                s.conds.append(new[n0] == x)
                s.conds.append(z3.ForAll([k], z3.Implies(z3.And(k >= 0, k < n0), new[k] == items.t[k]), patterns=[new[k]]))
                self.write_field(s, base, cls, "items", Val(new, items.ty), line)
                yield s, Val(z3.IntVal(0), "none")
                return
            if attr == "extend":
                s = st.fork()
                other = self.seq_of(s, args[0]) if args[0].ty != "pylist" or args[0].py else Val(z3.Empty(sort_of(items.ty)), items.ty)
                self.write_field(s, base, cls, "items", Val(z3.Concat(items.t, other.t), items.ty), line)
                yield s, Val(z3.IntVal(0), "none")
                return
        if cls.startswith("dict_"):
            ks = self.read_field(st, base, cls, "keys")
            mp = self.read_field(st, base, cls, "map")
            if attr == "keys":
                yield st, ks
                return
            if attr == "clear":
                s = st.fork()
                self.write_field(s, base, cls, "keys", Val(z3.Empty(sort_of(ks.ty)), ks.ty), line)
                yield s, Val(z3.IntVal(0), "none")
                return
            if attr == "values" and not args:
                vs = fresh_const("vals", z3.SeqSort(sort_of(mp.ty[2])))
                i = bound_var("vi", I)
                s = st.assume(z3.Length(vs) == z3.Length(ks.t))
                s = s.assume(z3.ForAll([i], z3.Implies(z3.And(i >= 0, i < z3.Length(ks.t)), vs[i] == z3.Select(mp.t, ks.t[i])), patterns=[vs[i]]))
                s = s.assume(z3.ForAll([i], z3.Implies(z3.And(i >= 0, i < z3.Length(ks.t)), z3.Contains(ks.t, z3.Unit(ks.t[i]))), patterns=[vs[i]]))
                # every key's entry occurs in the list (at the key's position): a witness position per key
                kk = bound_var("vk", sort_of(ks.ty[1]))
                vw = z3.Function(fresh_name("vpos"), sort_of(ks.ty[1]), I)
                s = s.assume(z3.ForAll([kk], z3.Implies(z3.Contains(ks.t, z3.Unit(kk)),
                                                         z3.And(vw(kk) >= 0, vw(kk) < z3.Length(ks.t), ks.t[vw(kk)] == kk, vs[vw(kk)] == z3.Select(mp.t, kk))),
                                         patterns=[vw(kk)]))
                s.ghost["values_witness"] = vw
                ety = ("ref", models.CLASSES[cls].get("elem") or self.c.get("dict_values", {}).get(cls, "opaque")) if mp.ty[2] == "int" else mp.ty[2]
                yield s, Val(vs, ("seq", ety))
                return
            if attr == "update" and len(args) == 1 and is_ref(args[0].ty) and args[0].ty[1].startswith("dict_") \
                    and models.CLASSES[args[0].ty[1]]["fields"] == models.CLASSES[cls]["fields"] \
                    and not z3.eq(z3.simplify(z3.Length(ks.t)), z3.IntVal(0)):
                # general merge: membership is the union, lookups prefer the argument's entries; the position of new keys is left
                # unspecified (only membership and lookups are used by the code under contract)
                nk = self.read_field(st, args[0], args[0].ty[1], "keys")
                nm = self.read_field(st, args[0], args[0].ty[1], "map")
                k = bound_var("uk", sort_of(ks.ty[1]))
                newkeys = fresh_const("ukeys", ks.t.sort())
                s = st.assume(z3.ForAll([k], z3.Contains(newkeys, z3.Unit(k)) == z3.Or(z3.Contains(ks.t, z3.Unit(k)), z3.Contains(nk.t, z3.Unit(k)))))
                newmap = fresh_const("umap", mp.t.sort())
                s.conds.append(z3.ForAll([k], z3.Select(newmap, k) == z3.If(z3.Contains(nk.t, z3.Unit(k)), z3.Select(nm.t, k), z3.Select(mp.t, k)),
                                         patterns=[z3.Select(newmap, k)]))
                self.write_field(s, base, cls, "keys", Val(newkeys, ks.ty), line)
                self.write_field(s, base, cls, "map", Val(newmap, mp.ty), line)
                yield s, Val(z3.IntVal(0), "none")
                return
            if attr == "update" and len(args) == 1 and is_ref(args[0].ty) and args[0].ty[1].startswith("dict_") \
                    and models.CLASSES[args[0].ty[1]]["fields"] == models.CLASSES[cls]["fields"]:
                # receiver known to be empty: it becomes a copy of the argument
                nk = self.read_field(st, args[0], args[0].ty[1], "keys")
                nm = self.read_field(st, args[0], args[0].ty[1], "map")
                s = st.fork()
                self.write_field(s, base, cls, "keys", Val(nk.t, ks.ty), line)
                self.write_field(s, base, cls, "map", Val(nm.t, mp.ty), line)
                yield s, Val(z3.IntVal(0), "none")
                return
            if attr == "setdefault" and len(args) == 2:
                # d.setdefault(k, v): the entry of k if present (dictionary unchanged), otherwise k -> v is appended and v returned
                kt = self.coerce(args[0], ks.ty[1]).t
                present = z3.Contains(ks.t, z3.Unit(kt))
                vty = ("ref", models.CLASSES[cls].get("elem") or self.c.get("dict_values", {}).get(cls, "opaque")) if mp.ty[2] == "int" else mp.ty[2]
                s_yes = st.assume(present)
                if self.feasible(s_yes):
                    yield s_yes, Val(z3.Select(mp.t, kt), vty)
                s_no = st.assume(z3.Not(present))
                if self.feasible(s_no):
                    newkeys = fresh_const("sdkeys", ks.t.sort())
                    xk = bound_var("xk", kt.sort())
                    jj = bound_var("kj", I)
                    n0 = z3.Length(ks.t)
                    s_no.conds.append(newkeys == z3.Concat(ks.t, z3.Unit(kt)))
                    s_no.conds.append(z3.ForAll([xk], z3.Contains(newkeys, z3.Unit(xk)) == z3.Or(z3.Contains(ks.t, z3.Unit(xk)), xk == kt)))
                    s_no.conds.append(z3.Length(newkeys) == n0 + 1)
                    s_no.conds.append(z3.ForAll([jj], z3.Implies(z3.And(jj >= 0, jj < n0), newkeys[jj] == ks.t[jj]), patterns=[newkeys[jj]]))
                    s_no.conds.append(newkeys[n0] == kt)
                    self.write_field(s_no, base, cls, "keys", Val(newkeys, ks.ty), line)
                    self.write_field(s_no, base, cls, "map", Val(z3.Store(mp.t, kt, self.coerce(args[1], mp.ty[2]).t), mp.ty), line)
                    yield s_no, Val(self.coerce(args[1], mp.ty[2]).t, vty)
                return
            if attr == "get" and len(args) == 1 and mp.ty[2] == "int":
                present = z3.Contains(ks.t, z3.Unit(args[0].t))
                vty = ("ref", models.CLASSES[cls].get("elem") or self.c.get("dict_values", {}).get(cls, "opaque"))
                yield st, Val(z3.If(present, z3.Select(mp.t, args[0].t), z3.IntVal(0)), vty)
                return
            if attr == "get" and len(args) == 2:
                present = z3.Contains(ks.t, z3.Unit(args[0].t))
                d = self.coerce(args[1], mp.ty[2] if mp.ty[2] != "int" else "int")
                vty = args[1].ty if mp.ty[2] == "int" else mp.ty[2]
                yield st, Val(z3.If(present, z3.Select(mp.t, args[0].t), d.t), vty)
                return
        raise Unsupported(f"method {cls}.{attr}")
    if base.ty == "slist" and attr == "append":
        # local list that is returned as an S-expression: append == Snoc
        tgt = node.func.value
        if not isinstance(tgt, ast.Name):
            raise Unsupported("append on non-name slist")
        s = st.fork()
        s.env[tgt.id] = Val(SList.Snoc(base.t, self.coerce(args[0], "sexp").t), "slist")
        yield s, Val(z3.IntVal(0), "none")
        return
    if base.ty == "pylist" and attr == "append":
        tgt = node.func.value
        if not isinstance(tgt, ast.Name):
            raise Unsupported("append on non-name list")
        s = st.fork()
        s.env[tgt.id] = Val(None, "pylist", base.py + [args[0]])
        yield s, Val(z3.IntVal(0), "none")
        return
    if isinstance(base.ty, tuple) and base.ty[0] == "seq" and attr == "append":
        tgt = node.func.value
        if not isinstance(tgt, ast.Name):
            raise Unsupported("append on non-name sequence")
        s = st.fork()
        self.cast_guard(st, args[0], base.ty[1], getattr(node, "lineno", None))
        x = self.coerce(args[0], base.ty[1]).t
        new = fresh_const("lapp", base.t.sort())
        s.conds.append(new == z3.Concat(base.t, z3.Unit(x)))
        # sound facts about append, stated explicitly so that quantified invariants over indices instantiate
        k = bound_var("k", I)
        n0 = z3.Length(base.t)
        s.conds.append(z3.Length(new) == n0 + 1)
        s.conds.append(new[n0] == x)
        s.conds.append(z3.ForAll([k], z3.Implies(z3.And(k >= 0, k < n0), new[k] == base.t[k]), patterns=[new[k]]))
        s.env[tgt.id] = Val(new, base.ty)
        yield s, Val(z3.IntVal(0), "none")
        return
    if isinstance(base.ty, tuple) and base.ty[0] == "setv" and attr == "intersection" and len(args) == 1 \
            and isinstance(args[0].ty, tuple) and args[0].ty[0] == "setv":
        r = fresh_const("isect", base.t.sort())
        x = bound_var("sx", sort_of(base.ty[1]))
        s = st.assume(z3.ForAll([x], z3.Contains(r, z3.Unit(x)) == z3.And(z3.Contains(base.t, z3.Unit(x)), z3.Contains(args[0].t, z3.Unit(x)))))
        yield s, Val(r, base.ty)
        return
    if isinstance(base.ty, tuple) and base.ty[0] == "seq" and attr == "extend":
        tgt = node.func.value
        if not isinstance(tgt, ast.Name):
            raise Unsupported("extend on non-name sequence")
        s = st.fork()
        other = self.seq_of(s, args[0]) if not (is_ref(args[0].ty) and args[0].ty[1].startswith("dict_")) else self.read_field(s, args[0], args[0].ty[1], "keys")
        new = fresh_const("ext", base.t.sort())
        k = bound_var("k", I)
        n0, n1 = z3.Length(base.t), z3.Length(other.t)
        s.conds.append(new == z3.Concat(base.t, other.t))
        s.conds.append(z3.Length(new) == n0 + n1)
        s.conds.append(z3.ForAll([k], z3.Implies(z3.And(k >= 0, k < n0), new[k] == base.t[k]), patterns=[new[k]]))
        s.conds.append(z3.ForAll([k], z3.Implies(z3.And(k >= 0, k < n1), new[n0 + k] == other.t[k])))
        s.env[tgt.id] = Val(new, base.ty)
        yield s, Val(z3.IntVal(0), "none")
        return
    raise Unsupported(f"method {attr} on {base.ty}")
