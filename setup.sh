#!/bin/sh
# Builds /verif/.venv offline: python 3.12 (the repo's interpreter) + z3-solver, cvc5, crosshair, icontract, deal, jsonschema
# from the local wheelhouse, with /venv's site-packages (editable pddl_plus_parser -> /repo, sympy, anytree, networkx) overlaid.
set -e
cd "$(dirname "$0")"
if [ -x .venv/bin/python ] && .venv/bin/python -c "import z3, jsonschema, pddl_plus_parser" 2>/dev/null; then
  exit 0
fi
rm -rf .venv
/venv/bin/python -m venv .venv
PIP_NO_INDEX=1 .venv/bin/pip install -q --no-index --find-links /opt/veriftools/wheels z3-solver cvc5 crosshair-tool icontract deal jsonschema >/dev/null
SP=$(.venv/bin/python -c "import site; print(site.getsitepackages()[0])")
echo "import site; site.addsitedir('/venv/lib/python3.12/site-packages')" > "$SP/overlay.pth"
.venv/bin/python -c "import z3, jsonschema, pddl_plus_parser; print('venv ok', z3.get_version_string())"
