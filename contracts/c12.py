"""C12 — numeric evaluation: contracts on the comparison / arithmetic tables, calculate, evaluate_expression,
increase / decrease / assign; bounded print -> read round trip and end-to-end evaluation."""
import z3
from pyvc.core import Val
from pyvc.bounded import Harness, Failure

NE = "models.numerical_expression:"
EPS_GLOBAL = {"EPSILON": ("symbolic", "real", "G_EPSILON", "EPSILON >= 0")}

_CMP_POST = {
    "=": "result == (absr(x - y) <= EPSILON)",
    "!=": "result == (absr(x - y) > EPSILON)",
    "<=": "result == (absr(x - y) <= EPSILON or x < y)",
    ">=": "result == (absr(x - y) <= EPSILON or x > y)",
    "<": "result == (x < y)",
    ">": "result == (x > y)",
}
_ARITH_POST = {"+": "result == x + y", "-": "result == x - y", "*": "result == x * y", "/": "result == x / y"}

CONTRACTS = {}
for _op, _post in _CMP_POST.items():
    CONTRACTS[f"{NE}COMPARISON_OPERATORS[{_op}]"] = dict(
        prop="C12", params={"x": "real", "y": "real"}, returns="bool",
        # symbolic tolerance: the proof covers every EPSILON >= 0 the environment can configure
        globals=EPS_GLOBAL, allocates=False, requires=[], ensures=[_post], raises={}, modifies=[])
for _op, _post in _ARITH_POST.items():
    CONTRACTS[f"{NE}NUMERICAL_BINARY_OPERATORS[{_op}]"] = dict(
        prop="C12", params={"x": "real", "y": "real"}, returns="real",
        allocates=False, requires=[], ensures=[_post], raises={"ZeroDivisionError": "y == 0"} if _op == "/" else {},
        must_raise=["y == 0"] if _op == "/" else [], modifies=[])

_FN = ("ref", "PDDLFunction")
CONTRACTS[NE + "increase"] = dict(
    prop="C12", params={"value_to_increase": _FN, "increase_by": "real"}, returns="none",
    ensures=["value_to_increase.stored_value == old(value_to_increase.stored_value) + increase_by"],
    raises={}, allocates=False, modifies=["PDDLFunction.stored_value[value_to_increase]"],
    calls={"PDDLFunction.set_value": "models.pddl_function:PDDLFunction.set_value"})
CONTRACTS[NE + "decrease"] = dict(
    prop="C12", params={"value_to_decrease": _FN, "decrease_by": "real"}, returns="none",
    ensures=["value_to_decrease.stored_value == old(value_to_decrease.stored_value) - decrease_by"],
    raises={}, allocates=False, modifies=["PDDLFunction.stored_value[value_to_decrease]"],
    calls={"PDDLFunction.set_value": "models.pddl_function:PDDLFunction.set_value"})
CONTRACTS[NE + "assign"] = dict(
    prop="C12", params={"assigned_variable": _FN, "value_to_assign": "real"}, returns="none",
    ensures=["assigned_variable.stored_value == value_to_assign"],
    raises={}, allocates=False, modifies=["PDDLFunction.stored_value[assigned_variable]"],
    calls={"PDDLFunction.set_value": "models.pddl_function:PDDLFunction.set_value"})
CONTRACTS["models.pddl_function:PDDLFunction.set_value"] = dict(
    prop="C12", params={"self": _FN, "value": "real"}, returns="none",
    ensures=["self.stored_value == value"], raises={}, allocates=False, modifies=["PDDLFunction.stored_value[self]"])

CONTRACTS[NE + "calculate"] = dict(
    prop="C12", params={"expression_node": "tree"}, returns="real",
    locals={"node_function": _FN, "numerical_operator": "str"},
    requires=["wf_arith(expression_node)", "tree_refs_ok(expression_node)"],
    # ordinary arithmetic on the current fluent values, operand order of '-' and '/' as written
    ensures=["result == tval(expression_node)"],
    raises={"ZeroDivisionError": "divzero(expression_node)"},
    must_raise=["divzero(expression_node)"],
    modifies=[], allocates=False, decreases_structural="expression_node",
    calls={"calculate": NE + "calculate",
           **{f"NUMERICAL_BINARY_OPERATORS[{o}]": f"{NE}NUMERICAL_BINARY_OPERATORS[{o}]" for o in _ARITH_POST}})

_CMP_KEYS = list(_CMP_POST)
CONTRACTS[NE + "evaluate_expression@cmp"] = dict(
    prop="C12", params={"expression_tree": "tree"}, returns="bool", globals=EPS_GLOBAL,
    locals={},
    requires=["is_cmp_node(expression_tree)", "tree_refs_ok(expression_tree)"],
    ensures=["result == cmp_spec(expression_tree)"],
    raises={"ZeroDivisionError": "divzero_children(expression_tree)"},
    must_raise=["divzero_children(expression_tree)"],
    modifies=[],
    calls={"calculate": NE + "calculate",
           **{f"COMPARISON_OPERATORS[{o}]": f"{NE}COMPARISON_OPERATORS[{o}]" for o in _CMP_KEYS}})
CONTRACTS[NE + "evaluate_expression@assign"] = dict(
    prop="C12", params={"expression_tree": "tree"}, returns=_FN,
    locals={"assigned_variable": _FN},
    requires=["is_assign_node(expression_tree)", "tree_refs_ok(expression_tree)"],
    # target := v | old+v | old-v with v evaluated BEFORE the write; the target object is returned
    ensures=["result == target_of(expression_tree)",
             "result.stored_value == upd_spec(expression_tree)"],
    raises={"ZeroDivisionError": "divzero_rhs(expression_tree)"},
    must_raise=["divzero_rhs(expression_tree)"],
    modifies=["PDDLFunction.stored_value[target_of(expression_tree)]"],
    calls={"calculate": NE + "calculate", "increase": NE + "increase", "decrease": NE + "decrease", "assign": NE + "assign",
           "scale_up": NE + "increase", "scale_down": NE + "increase"})


# ---- spec hooks over the Tree ADT -----------------------------------------------------------------------
from pyvc.sorts import Tree, tval, divzero, wf_arith, sv, tree_refs_ok


def _stored(interp, st):
    return interp.heap_arr(st, "PDDLFunction", "stored_value", "real")


def _h_is_cmp(interp, st, a):
    t = a[0].t
    return Val(z3.And(Tree.is_Op(t), z3.Or(*[Tree.op(t) == sv(k) for k in _CMP_KEYS]),
                      wf_arith(Tree.l(t)), wf_arith(Tree.r(t))), "bool")


def _h_is_assign(interp, st, a):
    t = a[0].t
    return Val(z3.And(Tree.is_Op(t), z3.Or(*[Tree.op(t) == sv(k) for k in ("assign", "increase", "decrease")]),
                      Tree.is_Fn(Tree.l(t)), wf_arith(Tree.r(t))), "bool")


def _h_cmp_spec(interp, st, a):
    t = a[0].t
    arr = _stored(interp, st)
    x, y = tval(Tree.l(t), arr), tval(Tree.r(t), arr)
    eps = z3.Const("G_EPSILON", z3.RealSort())
    ab = z3.If(x - y >= 0, x - y, y - x)
    close = ab <= eps
    op = Tree.op(t)
    return Val(z3.If(op == sv("="), close, z3.If(op == sv("!="), z3.Not(close),
               z3.If(op == sv("<="), z3.Or(close, x < y), z3.If(op == sv(">="), z3.Or(close, x > y),
               z3.If(op == sv("<"), x < y, x > y))))), "bool")


def _h_divzero_children(interp, st, a):
    t = a[0].t
    arr = _stored(interp, st)
    return Val(z3.Or(divzero(Tree.l(t), arr), divzero(Tree.r(t), arr)), "bool")


def _h_divzero_rhs(interp, st, a):
    return Val(divzero(Tree.r(a[0].t), _stored(interp, st)), "bool")


def _h_target_of(interp, st, a):
    return Val(Tree.ref(Tree.l(a[0].t)), _FN)


def _h_upd_spec(interp, st, a):
    """new value of the target, computed from the PRE-state stored values (old heap)."""
    t = a[0].t
    old = st.ghost.get("__old__") or st
    arr = _stored(interp, old)
    v = tval(Tree.r(t), arr)
    cur = z3.Select(arr, Tree.ref(Tree.l(t)))
    op = Tree.op(t)
    return Val(z3.If(op == sv("assign"), v, z3.If(op == sv("increase"), cur + v, cur - v)), "real")


_HOOKS = {"is_cmp_node": _h_is_cmp, "is_assign_node": _h_is_assign, "cmp_spec": _h_cmp_spec,
          "divzero_children": _h_divzero_children, "divzero_rhs": _h_divzero_rhs, "target_of": _h_target_of,
          "upd_spec": _h_upd_spec}
CONTRACTS["__spec_hooks__"] = _HOOKS
for _k, _c in CONTRACTS.items():
    if _k != "__spec_hooks__":
        _c.setdefault("spec_hooks", {}).update(_HOOKS)

LEVEL = "proof"
EXPLANATION = ("comparison and arithmetic tables, calculate, evaluate_expression (comparison and assignment variants), "
               "increase/decrease/assign, set_value are proved over the reals for every tree and every tolerance EPSILON >= 0; "
               "construct_expression_tree, set_expression_value and the print/re-read round trip are bounded stand-ins.")
TRUSTED = ["anytree.AnyNode modelled as the ADT Num|Fn|Op (children[0/1], value, is_leaf)", "math.isclose given its documented definition"]
ASSUMPTIONS = ["A1: float arithmetic treated as real arithmetic (no rounding, inf, nan)", "EPSILON / NUMERIC_PRECISION are read at import: EPSILON symbolic >= 0 in the proofs"]
HARNESSES = []


# ------------------------------------------------------------------------------------------------ bounded part
import itertools
import math
import random
from spec import pddl_sem as PS
from spec import semantics as SEM
from spec import views as V
from spec import sexp as SX
from spec import repo_api as RA


def _functions():
    from pddl_plus_parser.models import PDDLFunction, PDDLType
    obj = PDDLType("object")
    return {"f": PDDLFunction(name="f", signature={"?x": obj}), "g": PDDLFunction(name="g", signature={}),
            "h": PDDLFunction(name="h", signature={"?a": obj, "?b": obj})}


FSIG = {"f": [("?x", "object")], "g": [], "h": [("?a", "object"), ("?b", "object")]}


def _construct(text):
    from pddl_plus_parser.lisp_parsers import PDDLTokenizer
    from pddl_plus_parser.models.numerical_expression import construct_expression_tree
    ast_ = PDDLTokenizer(pddl_str=text).parse()
    return construct_expression_tree(ast_, _functions())


def _set_values(node, valuation):
    """valuation: {(name,args): value} -> state_fluents dict keyed like the repo does"""
    from pddl_plus_parser.models import PDDLFunction, PDDLType
    from pddl_plus_parser.models.numerical_expression import set_expression_value
    obj = PDDLType("object")
    fl = {}
    for (name, args), v in valuation.items():
        f = PDDLFunction(name=name, signature={a: obj for a in args})
        f.set_value(v)
        fl[f.untyped_representation] = f
    set_expression_value(node, fl)


def _render(n):
    if n[0] == "num":
        v = n[1]
        return str(int(v)) if float(v).is_integer() else repr(v)
    if n[0] == "fl":
        return "(" + " ".join((n[1],) + n[2]) + ")"
    return f"({n[1]} {_render(n[2])} {_render(n[3])})"


def _trees(depth, leaves):
    if depth == 0:
        yield from leaves
        return
    yield from leaves
    subs = list(_trees(depth - 1, leaves))
    for op in "+-*/":
        for l in subs:
            for r in subs:
                yield ("bin", op, l, r)


class CmpBoundary(Harness):
    name = "c12-cmp"
    prop = "C12"
    functions = ("COMPARISON_OPERATORS", "evaluate_expression")
    bound = {"quick": "6 operators x magnitudes {0,1,1e3,1e6,1e9,-1e6} x offsets {0, +-0.5eps, +-2eps, +-10eps} (+-1eps at magnitude 0 only)", "thorough": "same"}
    rule = "grid of (op, magnitude, offset); non-trivial = offset != 0; distinct by triple"

    def inputs(self, tier, seed):
        for op in ("=", "!=", "<=", ">=", "<", ">"):
            for mag in (0.0, 1.0, 1e3, 1e6, 1e9, -1e6):
                offs = [0, 0.5, -0.5, 2, -2, 10, -10] + ([1, -1] if mag == 0.0 else [])
                for k in offs:
                    yield {"op": op, "x": mag, "k": k}

    def nontrivial_key(self, inp):
        return (inp["op"], inp["x"], inp["k"]) if inp["k"] else None

    def check(self, inp):
        from pddl_plus_parser.models import numerical_expression as NEM
        eps = NEM.EPSILON
        x = inp["x"]
        y = x + inp["k"] * eps
        exp = SEM.cmp(inp["op"], x, y, eps) if inp["op"] != "!=" else not SEM.cmp("=", x, y, eps)
        got = RA.outcome(NEM.COMPARISON_OPERATORS[inp["op"]], x, y)
        out = []
        if got != ("ok", exp):
            out.append(Failure(clause=f"({inp['op']} x y) uses the absolute tolerance EPSILON={eps}", expected=exp, observed=got,
                               input={**inp, "y": y}))
        if inp["op"] != "!=":
            from anytree import AnyNode
            root = AnyNode(id=inp["op"], value=inp["op"], children=[AnyNode(id="x", value=x), AnyNode(id="y", value=y)])
            got2 = RA.outcome(NEM.evaluate_expression, root)
            if got2 != ("ok", exp):
                out.append(Failure(clause="evaluate_expression on a comparison node", expected=exp, observed=got2))
        return out


LEAVES = [("fl", "f", ("?x",)), ("fl", "g", ()), ("num", 2.0), ("num", 0.5)]
GRID = [-2.0, 0.0, 0.5, 3.0]


class TreeEval(Harness):
    name = "c12-eval"
    prop = "C12"
    functions = ("construct_expression_tree", "calculate", "set_expression_value", "evaluate_expression", "NumericalExpressionTree.to_pddl")
    bound = {"quick": "all trees of depth <= 2 over + - * / with leaves {(f ?x), (g), 2, 0.5} (4,100 trees, every 7th at quick) x valuations f,g in {-2,0,0.5,3}^2; assignments assign/increase/decrease of every depth<=1 rhs",
             "thorough": "all 4,100 trees x 16 valuations"}
    rule = "trees enumerated structurally; non-trivial = contains an operator; distinct by (tree text, valuation)"

    def inputs(self, tier, seed):
        step = 7 if tier == "quick" else 1
        for i, t in enumerate(_trees(2, LEAVES)):
            if i % step:
                continue
            yield {"kind": "calc", "tree": _render(t)}
        for t in _trees(1, LEAVES):
            for kind in ("assign", "increase", "decrease"):
                yield {"kind": kind, "tree": _render(t)}

    def nontrivial_key(self, inp):
        return (inp["kind"], inp["tree"]) if "(" in inp["tree"][1:] or inp["kind"] != "calc" else None

    def check(self, inp):
        from pddl_plus_parser.models.numerical_expression import calculate, evaluate_expression, NumericalExpressionTree
        out = []
        spec_tree = PS.sem_num(SX.read_text(inp["tree"]), FSIG)
        if inp["kind"] == "calc":
            r = RA.outcome(_construct, inp["tree"])
            if r[0] != "ok":
                return [Failure(clause="construct_expression_tree accepts binary arithmetic", expected="tree", observed=r)]
            node = r[1]
            if V.v_tree(node) != spec_tree:
                return [Failure(clause="view(construct_expression_tree(ast)) == sem_num(ast)", expected=spec_tree, observed=V.v_tree(node))]
            for fv in GRID + [None]:
                for gv in GRID + [None]:
                    # None = the state does not define the fluent: it reads as 0 (also right after a non-zero value,
                    # since the same tree object is re-used across states)
                    valuation = {k: v for k, v in ((("f", ("?x",)), fv), (("g", ()), gv)) if v is not None}
                    _set_values(node, valuation)
                    got = RA.outcome(calculate, node)
                    try:
                        exp = ("ok", SEM.val(spec_tree, {}, valuation, missing_zero=True))
                    except SEM.Undefined:
                        exp = ("exc", "ZeroDivisionError")
                    ok = got == exp or (got[0] == exp[0] == "ok" and math.isclose(got[1], exp[1], rel_tol=1e-12, abs_tol=1e-12))
                    if not ok:
                        out.append(Failure(clause="calculate == arithmetic on the current fluent values (a-b, a/b operand order)",
                                           expected=exp, observed=got, input={**inp, "f": fv, "g": gv}))
                        return out
            # print -> re-read preserves structure (constants here are exactly printable)
            txt = NumericalExpressionTree(node).to_pddl(4)
            r2 = RA.outcome(_construct, txt)
            if r2[0] != "ok" or V.v_tree(r2[1]) != spec_tree:
                out.append(Failure(clause="to_pddl text re-read by construct_expression_tree has the same structure", expected=spec_tree,
                                   observed=(txt, r2[0], V.v_tree(r2[1]) if r2[0] == "ok" else r2[1])))
            return out
        text = f"({inp['kind']} (f ?x) {inp['tree']})"
        r = RA.outcome(_construct, text)
        if r[0] != "ok":
            return [Failure(clause="construct_expression_tree accepts an assignment", expected="tree", observed=r)]
        node = r[1]
        for fv in GRID:
            for gv in GRID:
                valuation = {("f", ("?x",)): fv, ("g", ()): gv}
                _set_values(node, valuation)
                got = RA.outcome(evaluate_expression, node)
                try:
                    v = SEM.val(spec_tree, {}, valuation)
                    exp = v if inp["kind"] == "assign" else (fv + v if inp["kind"] == "increase" else fv - v)
                except SEM.Undefined:
                    exp = None
                if exp is None:
                    if got[0] != "exc":
                        out.append(Failure(clause="division by zero raises", expected="ZeroDivisionError", observed=got))
                    continue
                if got[0] != "ok" or not math.isclose(got[1].value, exp, rel_tol=1e-12, abs_tol=1e-12) or got[1] is not node.children[0].value:
                    out.append(Failure(clause=f"{inp['kind']}: target := v | old+v | old-v with v evaluated before the write",
                                       expected=exp, observed=(got[0], getattr(got[1], "value", got[1])), input={**inp, "f": fv, "g": gv}))
                    return out
        return out


class ConstructReject(Harness):
    """Forms construct_expression_tree cannot represent must raise (never silently truncated)."""
    name = "c12-construct"
    prop = "C12"
    functions = ("construct_expression_tree",)
    bound = {"quick": "n-ary arithmetic (3 and 4 operands), fluent terms with too few / too many / repeated arguments, unary minus, operator leaves, undeclared function, nested fluent argument; inside comparisons and assignments",
             "thorough": "same"}
    rule = "hand-enumerated malformed/unrepresentable shapes x 3 contexts; all non-trivial"

    SHAPES = ["(+ (g) 1 2)", "(* (f ?x) (g) 2 3)", "(f)", "(f ?x ?y)", "(g ?x)", "(h ?x)", "(h ?x ?x)", "(h ?x ?y ?z)", "(- (g))",
              "(+ (g))", "+", "(k ?x)", "(f (g))", "(+ 1 2 3)", "(h ?x ?y)", "(+ (h ?x ?y) 1)"]

    def inputs(self, tier, seed):
        for sh in self.SHAPES:
            for ctx in ("{}", "(<= {} 1)", "(increase (g) {})"):
                yield {"text": ctx.format(sh)}

    def check(self, inp):
        ast_ = SX.read_text(inp["text"])
        got = RA.outcome(_construct, inp["text"])

        def spec(a):
            if not PS.is_atom(a) and a and a[0] in ("<=", "increase"):
                return ("top", a[0], spec(a[1]), spec(a[2]))
            return PS.sem_num(a, FSIG)
        try:
            exp = spec(ast_)
            kind = None
        except PS.Unrepresentable as ex:
            exp, kind = None, str(ex)
        except PS.Malformed as ex:
            exp, kind = None, "malformed"
        if exp is None:
            if got[0] == "ok":
                cls = "repeated-argument" if kind == "repeated-argument" else None
                return [Failure(clause=f"unrepresentable / malformed numeric term must raise ({kind})", expected="exception",
                                observed=("ok", str(V.v_tree(got[1]))), cls=cls)]
            return []
        if got[0] != "ok":
            return [Failure(clause="representable numeric term accepted", expected=str(exp), observed=got)]
        v = V.v_tree(got[1])
        if exp[0] == "top":
            v = ("top", v[1], v[2], v[3]) if v[0] == "bin" else v
        if v != exp:
            return [Failure(clause="view(construct_expression_tree(ast)) == sem_num(ast)", expected=str(exp), observed=str(v))]
        return []


class PrintPrecision(Harness):
    name = "c12-print"
    prop = "C12"
    functions = ("NumericalExpressionTree.to_pddl", "construct_expression_tree")
    bound = {"quick": "constants {0, 1, -1, 0.5, -0.25, 3.14159, 2.99999, 1e-05, 1234.5678, -0.00004} x digits 0..6 in (+ (g) c) and (* c (f ?x))", "thorough": "same + 500 random constants"}
    rule = "constant x digits grid; non-trivial = non-integer constant; distinct by (constant, digits)"
    CONSTS = [0.0, 1.0, -1.0, 0.5, -0.25, 3.14159, 2.99999, 1e-05, 1234.5678, -0.00004]

    def inputs(self, tier, seed):
        rnd = random.Random(seed)
        cs = list(self.CONSTS) + ([round(rnd.uniform(-100, 100), rnd.randint(0, 6)) for _ in range(500)] if tier == "thorough" else [])
        for c in cs:
            for d in range(0, 7):
                yield {"c": c, "digits": d}

    def nontrivial_key(self, inp):
        return (inp["c"], inp["digits"]) if not float(inp["c"]).is_integer() else None

    def check(self, inp):
        from anytree import AnyNode
        from pddl_plus_parser.models.numerical_expression import NumericalExpressionTree
        fs = _functions()
        out = []
        for shape in ("+", "*"):
            leaf_c = AnyNode(id=str(inp["c"]), value=inp["c"])
            leaf_f = AnyNode(id="g", value=fs["g"])
            root = AnyNode(id=shape, value=shape, children=[leaf_f, leaf_c] if shape == "+" else [leaf_c, leaf_f])
            txt = RA.outcome(NumericalExpressionTree(root).to_pddl, inp["digits"])
            if txt[0] != "ok":
                out.append(Failure(clause="to_pddl does not raise", expected="text", observed=txt))
                continue
            r = RA.outcome(_construct, txt[1])
            if r[0] != "ok":
                out.append(Failure(clause="to_pddl text is accepted by the library's reader", expected="tree", observed=(txt[1], r)))
                continue
            v = V.v_tree(r[1])
            cv = v[3] if shape == "+" else v[2]
            ok_struct = v[0] == "bin" and v[1] == shape and cv[0] == "num"
            if not ok_struct or abs(cv[1] - inp["c"]) > 0.5 * 10 ** (-inp["digits"]) + 1e-12:
                out.append(Failure(clause="printed constant within half a unit of the last printed decimal; structure preserved",
                                   expected=(inp["c"], inp["digits"]), observed=txt[1]))
        return out


HARNESSES = [CmpBoundary(), TreeEval(), ConstructReject(), PrintPrecision()]


# ---- set_expression_value: every fluent leaf receives the state's value (0 if the state does not define it) -------------------
_urep = z3.Function("urep", z3.IntSort(), z3.StringSort())     # PDDLFunction.untyped_representation of an object (name and arguments are not written here)


def _h_urep(interp, st, a):
    return Val(_urep(a[0].t), "str")


def _sev_leaves_set(interp, st, a, old_state):
    """forall r: leaf_of(tree, r) -> stored'[r] == (urep(r) in fluents ? stored_old[fluents[urep(r)]] : 0)"""
    from pyvc.sorts import leaf_of, I
    tree, fl = a
    now = _stored(interp, st)
    before = _stored(interp, old_state)
    ks = interp.read_field(old_state, fl, "dict_PDDLFunction", "keys")
    mp = interp.read_field(old_state, fl, "dict_PDDLFunction", "map")
    r = z3.Const("r!sev", I)
    want = z3.If(z3.Contains(ks.t, z3.Unit(_urep(r))), z3.Select(before, z3.Select(mp.t, _urep(r))), z3.RealVal(0))
    return z3.ForAll([r], z3.Implies(leaf_of(tree.t, r), z3.Select(now, r) == want), patterns=[z3.Select(now, r)])


def _h_leaves_set(interp, st, a):
    return Val(_sev_leaves_set(interp, st, a, st.ghost.get("__old__") or st), "bool")


def _h_others_kept(interp, st, a):
    from pyvc.sorts import leaf_of, I
    old_state = st.ghost.get("__old__") or st
    now, before = _stored(interp, st), _stored(interp, old_state)
    r = z3.Const("r!fr", I)
    return Val(z3.ForAll([r], z3.Implies(z3.Not(leaf_of(a[0].t, r)), z3.Select(now, r) == z3.Select(before, r)), patterns=[z3.Select(now, r)]), "bool")


def _h_separate(interp, st, a):
    """no fluent object of the state is a leaf of the tree (the state's objects are only read)"""
    from pyvc.sorts import leaf_of, S
    tree, fl = a
    ks = interp.read_field(st, fl, "dict_PDDLFunction", "keys")
    mp = interp.read_field(st, fl, "dict_PDDLFunction", "map")
    k = z3.Const("k!sep", S)
    return Val(z3.ForAll([k], z3.Implies(z3.Contains(ks.t, z3.Unit(k)), z3.Not(leaf_of(tree.t, z3.Select(mp.t, k))))), "bool")


_SEV_HOOKS = {"urep": _h_urep, "leaves_set": _h_leaves_set, "others_kept": _h_others_kept, "separate": _h_separate}
CONTRACTS["models.pddl_function:PDDLFunction.untyped_representation"] = dict(
    prop="C12", assumed=True, params={"self": _FN}, returns="str", allocates=False,
    ensures=["result == urep(self)"], raises={}, modifies=[], spec_hooks=_SEV_HOOKS)
CONTRACTS[NE + "set_expression_value"] = dict(
    prop="C12", params={"expression_node": "tree", "state_fluents": ("ref", "dict_PDDLFunction")}, returns="none", allocates=False,
    locals={"grounded_fluent": _FN}, dict_values={"dict_str_ref": "PDDLFunction"},
    requires=["tree_refs_ok(expression_node)", "separate(expression_node, state_fluents)"],
    ensures=["leaves_set(expression_node, state_fluents)", "others_kept(expression_node)"],
    raises={}, modifies=["PDDLFunction.stored_value"], decreases_structural="expression_node",
    calls={"set_expression_value": NE + "set_expression_value", "PDDLFunction.set_value": "models.pddl_function:PDDLFunction.set_value",
           "PDDLFunction.untyped_representation": "models.pddl_function:PDDLFunction.untyped_representation"},
    spec_hooks=dict(_HOOKS, **_SEV_HOOKS))
