"""C11 — S-expression reader: contracts on PDDLTokenizer.{read_from_tokens, parse, tokenize}."""
import z3
from pyvc.core import Val
from pyvc.sorts import Q

TOK = "lisp_parsers.pddl_tokenizer:PDDLTokenizer."

from pyvc.sorts import lexp as _lexp, lexline as _lexline      # lexp(L, k): concat of lexline over the first k lines


def _hook_lexed(interp, st, args):
    """lexed(self): token sequence of the tokenizer's content, concat(lexline(l) for l in content)."""
    content = interp.read_field(st, args[0], "PDDLTokenizer", "pddl_file_content")
    lines = interp.read_field(st, Val(content.t, ("ref", "list_str")), "list_str", "items")
    return Val(_lexp(lines.t, z3.Length(lines.t)), ("seq", "str"))


CONTRACTS = {
    TOK + "read_from_tokens": dict(
        prop="C11",
        params={"self": ("ref", "PDDLTokenizer"), "tokens": ("ref", "deque")},
        locals={"expression": "slist", "token": "str"},
        returns="sexp",
        requires=[],
        ensures=[
            # soundness: the consumed prefix is exactly the flattening of the result; nothing merged/dropped
            "old(seq(tokens)) == flat(result) + seq(tokens)",
            "wf_sexp(result)",
        ],
        raises={"SyntaxError": "True", "IndexError": "True"},
        modifies=["deque.items[tokens]"],
        loops={0: dict(invariants=[
            "old(seq(tokens)) == ['('] + flatl(expression) + seq(tokens)",
            "wf_slist(expression)",
        ], modifies=["deque.items[tokens]"])},
        decreases="len(tokens)",
        calls={"self.read_from_tokens": TOK + "read_from_tokens"},
    ),
    TOK + "_is_comment_line": dict(
        prop="C11", assumed=True, params={"self": ("ref", "PDDLTokenizer"), "line": "str"}, returns="bool", allocates=False,
        # bounded (c11-lexline): a line recognised as a comment line carries no token
        ensures=["implies(result, len(lexline(line)) == 0)"], raises={}, modifies=[]),
    TOK + "tokenize": dict(
        prop="C11",
        params={"self": ("ref", "PDDLTokenizer")},
        locals={"tokens": ("ref", "deque")},
        returns=("ref", "deque"),
        # ASSUMED LEMMA (the per-line pipeline is the spec lexer; audited exhaustively on short lines by the bounded stand-in c11-lexline):
        axioms=["forall_str(lambda l: re.sub(r';.*', '', l).lower().replace('(', ' ( ').replace(')', ' ) ').split() == lexline(l))"],
        # every line contributes exactly its tokens, in order: no line dropped, duplicated or reordered (all file lengths)
        ensures=["fresh(result)", "seq(result) == lexed(self)"],
        raises={}, modifies=[],
        calls={"self._is_comment_line": TOK + "_is_comment_line"},
        loops={0: dict(invariants=["seq(tokens) == lex_lines(_seq[:_i])" if False else "seq(tokens) == lex_prefix(_seq, _i)", "fresh(tokens)"],
                       modifies=["deque.items[tokens]"])},
        spec_hooks={"lexed": _hook_lexed,
                    "lex_prefix": lambda interp, st, a: Val(_lexp(a[0].t, a[1].t), ("seq", "str"))},
    ),
    TOK + "parse": dict(
        prop="C11",
        params={"self": ("ref", "PDDLTokenizer")},
        returns="sexp",
        ensures=[
            "wf_sexp(result)",
            # the result's flattening is a prefix of the text's token sequence ...
            "flat(result) == seq(lexed(self))[:len(flat(result))]" if False else "prefix_tokens(flat(result), lexed(self))",
            # ... and it is ALL of it: text that continues after the top-level form is rejected
            "flat(result) == lexed(self)",
        ],
        raises={"SyntaxError": "True", "IndexError": "True"},
        modifies=[],
        calls={"self.read_from_tokens": TOK + "read_from_tokens", "self.tokenize": TOK + "tokenize"},
        spec_hooks={"lexed": _hook_lexed,
                    "prefix_tokens": lambda interp, st, args: Val(z3.PrefixOf(args[0].t, args[1].t), "bool")},
    ),
}

# ------------------------------------------------------------------------------------------------ bounded part
import itertools
import os
import random
import tempfile
from pyvc.bounded import Harness, Failure
from spec import sexp as S

LEVEL = "proof"
EXPLANATION = ("read_from_tokens / parse are proved against flat()/wf_sexp for all token sequences (unbounded); tokenize's loop is proved to "
               "concatenate the tokens of every line in order (all file lengths) relative to the assumed lemma that the per-line pipeline "
               "(regex, lower, replace, split) equals the character-level spec lexer, which is a bounded stand-in over all lines of a small alphabet.")
TRUSTED = ["collections.deque model (popleft, [0], len, extend) as a sequence cell",
           "spec lexer spec/sexp.py:lexline (defines what 'token' means); flat() injective on wf_sexp (audited bounded)"]
ASSUMPTIONS = ["assumed lemma in the proof of tokenize: for every line, re.sub(';.*','',l).lower().replace('(',' ( ').replace(')',' ) ').split() == lexline(l), and a line "
               "recognised by _is_comment_line has no token (both audited exhaustively on short lines by c11-lexline; the string functions are uninterpreted in the proof)",
               "A5: RecursionError for nesting >= ~1000 not modelled", "A7: termination of read_from_tokens by checked variant len(tokens)",
               "bounded: tokenize == lex only checked on enumerated lines/texts (alphabet and length stated in coverage.bounded)"]


def _tok():
    from pddl_plus_parser.lisp_parsers import PDDLTokenizer
    return PDDLTokenizer


def run_parse(text, mode):
    """Outcome of the real reader: ('ok', tree) | ('exc', name)."""
    T = _tok()
    try:
        if mode == "file":
            with tempfile.NamedTemporaryFile("w", suffix=".pddl", delete=False, encoding="utf-8", newline="") as f:
                f.write(text)
                path = f.name
            try:
                return ("ok", T(file_path=path).parse())
            finally:
                os.unlink(path)
        return ("ok", T(pddl_str=text).parse())
    except (SyntaxError, IndexError) as ex:
        return ("exc", type(ex).__name__)


def expected_parse(text):
    try:
        return ("ok", S.read_text(text))
    except S.Reject as ex:
        return ("exc", str(ex))


class LexLines(Harness):
    name = "c11-lexline"
    prop = "C11"
    functions = ("PDDLTokenizer.tokenize", "PDDLTokenizer.__init__")
    bound = {"quick": "all one-line texts over the 10-character alphabet {a,B,1,-,(,),;,space,tab,?} up to length 5 (string mode), length 4 (file mode)",
             "thorough": "same alphabet plus the CR/LF pair as one symbol, up to length 6 (string) / 5 (file)"}
    rule = "every string over the alphabet up to the length bound; non-trivial = yields at least one token; distinct by text"
    ALPHA = "aB1-();\t ?"

    def inputs(self, tier, seed):
        # thorough: CR only as part of a CR/LF pair (a lone CR is a line end for files read with universal newlines but not
        # for strings; the property speaks of CR/LF layouts)
        alpha = list(self.ALPHA) + (["\r\n"] if tier == "thorough" else [])
        n = 5 if tier == "quick" else 6
        for k in range(0, n + 1):
            for t in itertools.product(alpha, repeat=k):
                yield {"text": "".join(t), "mode": "str"}
        for k in range(0, n):
            for t in itertools.product(alpha, repeat=k):
                yield {"text": "".join(t), "mode": "file"}

    def nontrivial_key(self, inp):
        return (inp["text"], inp["mode"]) if S.lex(inp["text"]) else None

    def check(self, inp):
        T = _tok()
        text, mode = inp["text"], inp["mode"]
        if mode == "file":
            with tempfile.NamedTemporaryFile("w", suffix=".pddl", delete=False, encoding="utf-8", newline="") as f:
                f.write(text)
                path = f.name
            try:
                got = list(T(file_path=path).tokenize())
            finally:
                os.unlink(path)
        else:
            got = list(T(pddl_str=text).tokenize())
        exp = S.lex(text)
        if got != exp:
            return [Failure(clause="tokenize(text) == lex(text)", expected=exp, observed=got)]
        return []


def _render_variants(tree, rnd):
    """Layout / comment / case variants of a token tree (all must read as `tree`)."""
    toks = S.flat(tree)
    yield " ".join(toks)
    yield "".join(t if t in "()" else " " + t + " " for t in toks)
    yield "\n".join(toks)
    yield "\t".join(toks) + "\t"
    yield "\r\n".join(toks) + "\r\n"
    yield "; leading comment\n" + " ".join(toks) + " ; trailing ( comment )\n"
    yield "\n".join(t + " ;c " + ")" for t in toks)
    yield " ".join(t.upper() for t in toks)
    yield "  ;only comment\n\n" + "\n ; x\n".join(toks)


def _trees(atoms, max_tokens):
    """All S-expression lists with at most max_tokens tokens over the atoms."""
    from functools import lru_cache

    @lru_cache(None)
    def seqs(n):
        # sequences of expressions using exactly n tokens
        if n == 0:
            return [()]
        out = []
        for k in range(1, n + 1):
            for first in exprs(k):
                for rest in seqs(n - k):
                    out.append((first,) + rest)
        return out

    @lru_cache(None)
    def exprs(n):
        out = []
        if n == 1:
            out.extend(atoms)
        if n >= 2:
            for s in seqs(n - 2):
                out.append(s)
        return out

    def untuple(e):
        return e if isinstance(e, str) else [untuple(x) for x in e]
    for n in range(2, max_tokens + 1):
        for e in exprs(n):
            if not isinstance(e, str):
                yield untuple(e)


class ReaderTrees(Harness):
    name = "c11-reader"
    prop = "C11"
    functions = ("PDDLTokenizer.parse", "PDDLTokenizer.read_from_tokens", "PDDLTokenizer.tokenize")
    bound = {"quick": "all token trees with <= 6 tokens over atoms {a, ?x, -} x 9 layout/comment/case renderings x {string, file}; every single-token parenthesis deletion/insertion of each tree's canonical text",
             "thorough": "<= 8 tokens; plus 2000 random larger trees"}
    rule = "enumeration of token trees by token count; non-trivial = tree with at least one atom or nesting; distinct by (tree, rendering)"

    def inputs(self, tier, seed):
        mx = 6 if tier == "quick" else 8
        rnd = random.Random(seed)
        for tree in _trees(("a", "?x", "-"), mx):
            toks = S.flat(tree)
            for i, text in enumerate(_render_variants(tree, rnd)):
                yield {"text": text, "mode": "str"}
                if i % 3 == 0:
                    yield {"text": text, "mode": "file"}
            # malformed neighbours: delete / insert one parenthesis
            for i in range(len(toks)):
                if toks[i] in "()":
                    yield {"text": " ".join(toks[:i] + toks[i + 1:]), "mode": "str"}
            for i in range(len(toks) + 1):
                for p in "()":
                    yield {"text": " ".join(toks[:i] + [p] + toks[i:]), "mode": "str"}
            yield {"text": " ".join(toks) + " a", "mode": "str"}
            yield {"text": " ".join(toks + toks), "mode": "str"}
        if tier == "thorough":
            for _ in range(2000):
                yield {"text": " ".join(S.flat(_rand_tree(rnd, 4))), "mode": "str"}

    def nontrivial_key(self, inp):
        return (inp["text"], inp["mode"]) if len(S.lex(inp["text"])) > 2 else None

    def check(self, inp):
        got = run_parse(inp["text"], inp["mode"])
        exp = expected_parse(inp["text"])
        if exp[0] == "ok":
            if got[0] == "ok":
                got = ("ok", _norm(got[1]))
            if got != exp:
                return [Failure(clause="parse(text) == the unique tree whose flattening is lex(text)", expected=exp, observed=got)]
        else:
            if got[0] != "exc":
                cls = None
                if exp[1].startswith("text continues") and _norm(got[1]) == _first_form(S.lex(inp["text"])):
                    cls = "trailing-tokens-ignored"      # known finding: the only deviation is that the tail is ignored
                return [Failure(clause=f"unbalanced or trailing text must be rejected ({exp[1]})", expected="SyntaxError/IndexError", observed=got, cls=cls)]
        return []


def _norm(e):
    return e if isinstance(e, str) else [_norm(x) for x in e]


def _first_form(tokens):
    """The first complete form of a token list (None if there is none)."""
    for k in range(1, len(tokens) + 1):
        try:
            return S.read_all(tokens[:k])
        except S.Reject:
            continue
    return None


def _rand_tree(rnd, depth):
    n = rnd.randint(0, 4)
    out = []
    for _ in range(n):
        if depth > 0 and rnd.random() < 0.4:
            out.append(_rand_tree(rnd, depth - 1))
        else:
            out.append(rnd.choice(["a", "b1", "?x", "-", ":k", "1.5"]))
    return out


HARNESSES = [LexLines(), ReaderTrees()]
