"""C03 — Operator.apply yields exactly the PDDL successor.  Bounded harness over generated effect bodies x states x calls x
every permutation of the effect-group collection; deductive contracts on leaf functions are shared with C12."""
import itertools
import random
from pyvc.bounded import Harness, Failure
from spec import pddl_sem as PS, semantics as SEM, gen as G, repo_api as RA, sexp as SX, views as V

LEVEL = "other"
EXPLANATION = ("bounded stand-in: successor states computed by Operator.apply compared with spec succ() for generated effect bodies "
               "(add/delete, numeric updates, when, forall-when over a type and its subtypes) on every state over the atoms the action touches, "
               "every argument tuple, and every permutation of the operator's effect groups (their set order is an implicit schedule).")
TRUSTED = ["spec/semantics.py:succ, firing_groups, consistent (PDDL semantics incl. the quantifier's consistency assumption)"]
ASSUMPTIONS = ["bounded: 2 objects + optional constant; effect bodies from spec/gen.py:effect_bodies(); only consistent firings are compared"]


def _permute_groups(op, perm_index):
    """Replace the set of effect groups by a list in the perm_index-th order (the code only iterates over it)."""
    groups = sorted(op.grounded_effects, key=lambda g: (g.grounded_antecedents is not None, str(sorted(p.untyped_representation for p in g.grounded_discrete_effects)),
                                                        str(sorted(t.to_pddl() for t in g.grounded_numeric_effects))))
    perms = list(itertools.permutations(groups))
    op.grounded_effects = list(perms[perm_index % len(perms)])
    for g in groups:
        # also vary the order inside a group
        if perm_index % 2:
            g.grounded_discrete_effects = list(reversed(sorted(g.grounded_discrete_effects, key=lambda p: p.untyped_representation)))
            g.grounded_numeric_effects = list(reversed(sorted(g.grounded_numeric_effects, key=lambda t: t.to_pddl())))
    return len(perms)


class Successors(Harness):
    name = "c03-succ"
    prop = "C03"
    shards = 12
    functions = ("Operator.apply", "Operator._apply_universal_effects", "GroundedEffect.apply", "GroundedEffect._apply_discrete_effects",
                 "GroundedEffect._update_single_numeric_expression", "GroundedEffect.antecedents_hold", "Operator.ground",
                 "Operator._ground_conditional_effects", "State.copy")
    bound = {"quick": "effect_bodies(level 1) of spec/gen.py (~110 bodies) with precondition (and) ; all 4 argument tuples; every assignment of the touched ground atoms x fluents {0,1,2} (cap 200 states per body); all permutations of the effect groups (<= 6) alternated with reversed in-group order",
             "thorough": "effect_bodies(level 2), cap 1500"}
    rule = "effect body x args x state x group order; non-trivial = body with >= 2 effects, a when or a forall; distinct counted by body text"

    def inputs(self, tier, seed):
        lvl = 1 if tier == "quick" else 2
        for e in G.effect_bodies(lvl):
            yield {"eff": e, "tier": tier}

    def nontrivial_key(self, inp):
        return inp["eff"] if inp["eff"].count("(") > 2 else None

    def check(self, inp):
        from pddl_plus_parser.models import Operator, PDDLObject
        cap = 200 if inp.get("tier", "quick") == "quick" else 1500
        text = G.domain_text([("act", "?x - a ?y - a", "(and)", inp["eff"])])
        d = RA.outcome(RA.parse_domain_text, text)
        if d[0] != "ok":
            return [Failure(clause="supported effect body is accepted by the domain parser", expected="domain", observed=d)]
        dom = d[1]
        E = PS.sem_eff(SX.read_text(inp["eff"]), G.PREDS, G.FUNCS)
        act = {"name": "act", "params": [("?x", "a"), ("?y", "a")], "pre": ("and", ()), "eff": E}
        objects = dict(G.OBJECTS)
        pobjs = {n: PDDLObject(n, dom.types[t]) for n, t in objects.items()}
        names = list(objects)
        tuples = list(itertools.product(names, repeat=2))
        envs = [{"?x": a, "?y": b} for a, b in tuples]
        atoms, fls = G.mentioned(list(E), envs, objects)
        _, all_fls = G.ground_atoms(objects)
        rnd = random.Random(hash(inp["eff"]) & 0xffff)
        out = []
        ops = []
        for a, b in tuples:
            op = Operator(dom.actions["act"], dom, [a, b], problem_objects=pobjs)
            op.ground()
            ops.append(op)
        n_perm = [1] * len(ops)
        for si, (facts, fluents) in enumerate(G.states_over(atoms, fls, all_fluents=all_fls, max_states=cap, rnd=rnd)):
            spec_state = (facts, fluents)
            for ti, ((a, b), env, op) in enumerate(zip(tuples, envs, ops)):
                groups = SEM.firing_groups(E, env, spec_state, objects, G.TYPES_DECL)
                if not SEM.consistent(groups):
                    continue
                n_perm[ti] = _permute_groups(op, si)
                exp = SEM.succ(act, (a, b), spec_state, objects, G.TYPES_DECL)
                st = RA.make_state(dom, facts, fluents)
                got = RA.outcome(op.apply, st)
                self.cases += 1
                info = {**inp, "args": [a, b], "facts": sorted(map(list, facts)), "fluents": {str(k): v for k, v in fluents.items() if v}, "group_order": si}
                if got[0] != "ok":
                    out.append(Failure(clause="apply returns a state for an applicable action", expected="state", observed=got, input=info))
                elif not SEM.states_equal(V.v_state(got[1]), exp):
                    gv = V.v_state(got[1])
                    out.append(Failure(clause="view(apply(s)) == succ(action[args], s) (conditions and right-hand sides read the pre-state; frame)",
                                       expected={"facts": sorted(map(str, exp[0])), "fluents": {str(k): v for k, v in exp[1].items() if v}},
                                       observed={"facts": sorted(map(str, gv[0])), "fluents": {str(k): v for k, v in gv[1].items() if v}}, input=info))
                elif got[1].is_init:
                    out.append(Failure(clause="successor is not an initial state", expected=False, observed=True, input=info))
                elif not SEM.states_equal(V.v_state(st), spec_state):
                    out.append(Failure(clause="apply leaves its input state unchanged", expected="unchanged", observed=str(V.v_state(st)), input=info))
                if len(out) >= 2:
                    return out
        return out


class Refusal(Harness):
    """apply refuses an inapplicable action unless explicitly allowed; flag combinations."""
    name = "c03-refusal"
    prop = "C03"
    functions = ("Operator.apply",)
    bound = {"quick": "precondition (and (p ?x)) with effect (and (q ?x) (when (and (g)) (r ?x ?y))) on all states over {p,g,q,r atoms}; flags allow_inapplicable x skip_validation", "thorough": "same"}
    rule = "state x flags; all non-trivial"

    def inputs(self, tier, seed):
        for allow in (False, True):
            for skip in (False, True):
                yield {"allow": allow, "skip": skip}

    def check(self, inp):
        from pddl_plus_parser.models import Operator, PDDLObject
        eff = "(and (q ?x) (when (and (g)) (r ?x ?y)))"
        text = G.domain_text([("act", "?x - a ?y - a", "(and (p ?x))", eff)])
        dom = RA.parse_domain_text(text)
        E = PS.sem_eff(SX.read_text(eff), G.PREDS, G.FUNCS)
        act = {"name": "act", "params": [("?x", "a"), ("?y", "a")], "pre": PS.sem_pre(SX.read_text("(and (p ?x))"), G.PREDS, G.FUNCS), "eff": E}
        objects = dict(G.OBJECTS)
        pobjs = {n: PDDLObject(n, dom.types[t]) for n, t in objects.items()}
        out = []
        atoms = [("p", ("o1",)), ("g", ()), ("q", ("o1",)), ("r", ("o1", "o2"))]
        shared_op = Operator(dom.actions["act"], dom, ["o1", "o2"], problem_objects=pobjs)     # one object re-used for every state
        for i, (facts, fluents) in enumerate(G.states_over(atoms, [], all_fluents=G.ground_atoms(objects)[1])):
            st = RA.make_state(dom, facts, fluents)
            op = shared_op if i % 2 else Operator(dom.actions["act"], dom, ["o1", "o2"], problem_objects=pobjs)
            got = RA.outcome(op.apply, st, allow_inapplicable_actions=inp["allow"], skip_validation=inp["skip"])
            self.cases += 1
            applicable = ("p", ("o1",)) in facts
            if not applicable and not inp["allow"] and not inp["skip"]:
                if got != ("exc", "ValueError"):
                    out.append(Failure(clause="an inapplicable action is refused with ValueError unless allowed", expected="ValueError", observed=str(got), input={**inp, "facts": sorted(map(list, facts))}))
                continue
            exp = SEM.succ(act, ("o1", "o2"), (facts, fluents), objects, G.TYPES_DECL, check_pre=False)
            if got[0] != "ok" or not SEM.states_equal(V.v_state(got[1]), exp):
                out.append(Failure(clause="when applied (applicable, or explicitly allowed/skipped) the effects are the successor's; conditional effects still depend on their condition",
                                   expected=str(exp[0]), observed=str(V.v_state(got[1])[0]) if got[0] == "ok" else str(got), input={**inp, "facts": sorted(map(list, facts))}))
        return out[:3]


HARNESSES = [Successors(), Refusal()]

# ---- deductive: the control skeleton of Operator.apply — refusal guard, freshness of the successor, strict frame --------------------
import z3
from pyvc.core import Val
from pyvc.sorts import I, B
OP = "models.pddl_operator:Operator."
_ST = ("ref", "State")
_OPR = ("ref", "Operator")
_app = z3.Function("op_applicable", I, I, B)          # the operator's precondition holds in the state (C02, bounded)
from contracts.c14 import HOOKS_OPAQUE as _C14_OPAQUE
_HK = dict(_C14_OPAQUE, op_applicable=lambda interp, st, a: Val(_app(a[0].t, a[1].t), "bool"))
from contracts.c14 import CONTRACTS as _C14_CONTRACTS, STATE_WF as _STATE_WF
CONTRACTS = {
    OP + "ground": dict(prop="C03", assumed=True, params={"self": _OPR}, returns="none", ensures=["self.grounded"], raises={"KeyError": "True"},
                        modifies=["Operator.grounded_preconditions[self]", "Operator.grounded_effects[self]", "Operator.grounded[self]"]),
    OP + "is_applicable": dict(prop="C03", assumed=True, params={"self": _OPR, "state": _ST}, returns="bool",
                               ensures=["result == op_applicable(self, state)"], raises={"KeyError": "True"},
                               modifies=["Operator.grounded_preconditions[self]", "Operator.grounded_effects[self]", "Operator.grounded[self]"], spec_hooks=_HK),
    # proved under C14 (fresh state, fresh dictionaries, fresh buckets and members, same content, nothing existing written)
    "models.pddl_state:State.copy": dict(_C14_CONTRACTS["models.pddl_state:State.copy"], prop="C14"),
    "models.grounded_effect:GroundedEffect.antecedents_hold": dict(
        prop="C03", assumed=True, params={"self": ("ref", "GroundedEffect"), "state": _ST, "allow_inapplicable_actions": "bool"}, returns="bool",
        ensures=[], raises={"KeyError": "True"}, modifies=[]),
    "models.grounded_effect:GroundedEffect.apply": dict(
        prop="C03", assumed=True, params={"self": ("ref", "GroundedEffect"), "state": _ST, "previous_state": _ST}, optional=("previous_state",),
        returns="none", ensures=[], raises={"KeyError": "True", "ZeroDivisionError": "True"}, modifies=[]),     # writes inside `state`'s own (fresh) containers only
    OP + "_apply_universal_effects": dict(prop="C03", assumed=True, params={"self": _OPR, "previous_state": _ST, "current_state": _ST}, returns="none",
                                          ensures=[], raises={"KeyError": "True", "ZeroDivisionError": "True"}, modifies=[]),
    OP + "apply": dict(
        prop="C03", shards=4, params={"self": _OPR, "previous_state": _ST, "allow_inapplicable_actions": "bool", "skip_validation": "bool"},
        locals={"new_state": _ST}, returns=_ST,
        requires=["allocated(previous_state)", "allocated(self.grounded_effects)"] + [r.replace("self", "previous_state") for r in _STATE_WF],
        ensures=[
            # the successor is a new object, never the input state, and is not an initial state
            "fresh(result)", "result != previous_state", "not result.is_init",
            # the input state object is not written: same containers, same flag
            "previous_state.is_init == old(previous_state.is_init)", "previous_state.state_predicates == old(previous_state.state_predicates)",
            "previous_state.state_fluents == old(previous_state.state_fluents)",
            # a normal return means: applicable, or explicitly allowed / validation skipped
            "op_applicable(self, previous_state) or allow_inapplicable_actions or skip_validation"],
        # refusal: ValueError exactly when the precondition is false and the caller did not opt out
        raises={"ValueError": "not op_applicable(self, previous_state) and not allow_inapplicable_actions and not skip_validation",
                "KeyError": "True", "ZeroDivisionError": "True"},
        must_raise=["not op_applicable(self, previous_state) and not allow_inapplicable_actions and not skip_validation"],
        modifies=["Operator.grounded_preconditions[self]", "Operator.grounded_effects[self]", "Operator.grounded[self]"],
        calls={"self.ground": OP + "ground", "self.is_applicable": OP + "is_applicable", "State.copy": "models.pddl_state:State.copy",
               "GroundedEffect.antecedents_hold": "models.grounded_effect:GroundedEffect.antecedents_hold",
               "GroundedEffect.apply": "models.grounded_effect:GroundedEffect.apply", "self._apply_universal_effects": OP + "_apply_universal_effects"},
        loops={0: dict(invariants=["fresh(new_state)", "not new_state.is_init", "new_state != previous_state",
                                   "previous_state.is_init == old(previous_state.is_init)",
                                   "previous_state.state_predicates == old(previous_state.state_predicates)",
                                   "previous_state.state_fluents == old(previous_state.state_fluents)"], modifies=[])},
        spec_hooks=_HK),
}
