"""C17 — combining agent domains / problems yields their union and disturbs nothing else (bounded)."""
import itertools
import os
import random
import shutil
import tempfile
from pathlib import Path
from pyvc.bounded import Harness, Failure
from spec import pddl_sem as PS, gen as G, repo_api as RA, sexp as SX, views as V
from contracts.c01 import _norm_domain

CONTRACTS = {}
LEVEL = "other"
EXPLANATION = ("bounded stand-in: the multi-agent scenario domain/problem is split into 1-3 overlapping per-agent files in every file order "
               "(file names permuted so that glob order varies), combined by MultiAgentDomainsConverter / MultiAgentProblemsConverter and "
               "compared with the union by view; Domain().types, a previously parsed domain and module-level objects are digested before and after.")
TRUSTED = ["spec/views.py", "glob order is varied through file names only (the OS decides the actual discovery order)"]
ASSUMPTIONS = ["bounded: 3 agents (thorough: 4); splits = each agent file holds the shared vocabulary plus that agent's private predicate/action/objects/goals"]

SHARED_HEAD = """(define (domain ma)
(:requirements :typing :negative-preconditions :fluents)
(:types agent item - object {extra_types})
(:predicates (free ?a - agent) (avail ?i - item) {priv_preds})
(:functions (cnt) {priv_funcs})
"""
COMMON_ACTION = "(:action work :parameters (?a - agent) :precondition (and (free ?a)) :effect (and (increase (cnt) 1)))\n"


def agent_domain(k):
    priv = f"(:action act{k} :parameters (?a - agent ?i - item) :precondition (and (avail ?i) (own{k} ?a)) :effect (and (not (avail ?i)) (increase (load{k} ?a) 1)))\n"
    return SHARED_HEAD.format(extra_types=f"tool{k} - item", priv_preds=f"(own{k} ?a - agent)", priv_funcs=f"(load{k} ?a - agent)") + COMMON_ACTION + priv + ")\n"


def union_domain_text(ks):
    return SHARED_HEAD.format(extra_types=" ".join(f"tool{k} - item" for k in ks), priv_preds=" ".join(f"(own{k} ?a - agent)" for k in ks),
                              priv_funcs=" ".join(f"(load{k} ?a - agent)" for k in ks)) + COMMON_ACTION + \
        "".join(f"(:action act{k} :parameters (?a - agent ?i - item) :precondition (and (avail ?i) (own{k} ?a)) :effect (and (not (avail ?i)) (increase (load{k} ?a) 1)))\n" for k in ks) + ")\n"


def agent_problem(k, ks):
    return (f"(define (problem pr) (:domain ma) (:objects ag{k} - agent shared shared2 - item t{k} t{k}b t{k}c - tool{k})\n"
            f"(:init (free ag{k}) (avail shared) (avail shared2) (own{k} ag{k}) (avail t{k}) (avail t{k}b) (avail t{k}c) (= (cnt) 0) (= (load{k} ag{k}) {k}))\n"
            f"(:goal (and (avail shared) (own{k} ag{k}) (>= (cnt) 1) (>= (load{k} ag{k}) {k}))))")


def digest_globals():
    from pddl_plus_parser.models import Domain
    from pddl_plus_parser.models import pddl_domain, pddl_type
    d = Domain()
    return {"Domain().types": sorted((n, t.parent.name if t.parent else None) for n, t in d.types.items()),
            "DEFAULT_TYPES": sorted(pddl_domain.DEFAULT_TYPES), "ObjectType.parent": str(pddl_type.ObjectType.parent),
            "Domain().predicates": sorted(d.predicates), "Domain().actions": sorted(d.actions)}


class Combine(Harness):
    name = "c17-combine"
    prop = "C17"
    functions = ("MultiAgentDomainsConverter.locate_domains", "MultiAgentDomainsConverter._add_dummy_actions", "MultiAgentDomainsConverter.export_combined_domain",
                 "MultiAgentProblemsConverter.combine_problems", "MultiAgentProblemsConverter.export_combined_problem", "Domain.__init__")
    bound = {"quick": "agent subsets of {1,2,3} (7) x all file-name permutations (<= 6) x dummy actions on/off; preceded and followed by parsing an unrelated typed and an untyped domain", "thorough": "agent subsets of {1,2,3,4} (15) x all file-name permutations (<= 24) x dummy actions on/off"}
    rule = "(agent subset, name permutation, dummy flag); non-trivial = >= 2 agents; distinct by input"

    def inputs(self, tier, seed):
        pool = (1, 2, 3) if tier == "quick" else (1, 2, 3, 4)       # thorough: up to 4 agent files (all subsets, every discovery order)
        for n in range(1, len(pool) + 1):
            for ks in itertools.combinations(pool, n):
                for perm in itertools.permutations(range(n)):
                    for dummy in (False, True):
                        yield {"agents": list(ks), "names": list(perm), "dummy": dummy}

    def nontrivial_key(self, inp):
        return str(inp) if len(inp["agents"]) >= 2 else None

    def check(self, inp):
        from pddl_plus_parser.multi_agent import MultiAgentDomainsConverter, MultiAgentProblemsConverter
        from pddl_plus_parser.exporters import DomainExporter
        self.cases += 1
        ks = inp["agents"]
        out = []
        tmp = Path(tempfile.mkdtemp(prefix="pyvc-c17-", dir=RA.tmpdir()))
        try:
            for k, nm in zip(ks, inp["names"]):
                (tmp / f"domain-{nm}x{k}.pddl").write_text(agent_domain(k))
                (tmp / f"problem-{nm}x{k}.pddl").write_text(agent_problem(k, ks))
            before_glob = digest_globals()
            other = RA.parse_domain_text(G.scenario_domain_text())
            other_v = _norm_domain(V.v_domain(other))
            fresh_before = RA.parse_domain_text("(define (domain u) (:requirements :strips) (:predicates (zz)) (:action a :parameters () :precondition (and (zz)) :effect (and (zz))))")
            r = RA.outcome(MultiAgentDomainsConverter(tmp).locate_domains, inp["dummy"])
            if r[0] != "ok":
                return [Failure(clause="agent domains are combined", expected="domain", observed=r)]
            comb = r[1]
            exp = PS.sem_domain(SX.read_text(union_domain_text(ks)))
            v = V.v_domain(comb)
            vn, en = _norm_domain(v), _norm_domain(exp)
            import copy as _copy
            vn_full = _copy.deepcopy(vn)
            if inp["dummy"]:
                for nm in ("dummy-add-predicate-action", "dummy-del-predicate-action"):
                    if nm not in vn["actions"]:
                        out.append(Failure(clause="dummy actions are added on request", expected=nm, observed=sorted(vn["actions"])))
                    vn["actions"].pop(nm, None)
                vn["predicates"].pop("dummy-additional-predicate", None)
            for key in ("types", "predicates", "functions"):
                if vn[key] != en[key]:
                    out.append(Failure(clause=f"combined {key} == union of the agents' {key}", expected=str(en[key]), observed=str(vn[key])))
            if vn["actions"] != en["actions"]:
                out.append(Failure(clause="combined actions == union of the agents' actions", expected=sorted(en["actions"]), observed=sorted(vn["actions"])))
            # nothing else disturbed
            after_glob = digest_globals()
            if after_glob != before_glob:
                out.append(Failure(clause="a freshly created Domain() and module-level objects are unchanged by combining", expected=str(before_glob), observed=str(after_glob)))
            if _norm_domain(V.v_domain(other)) != other_v:
                out.append(Failure(clause="a previously parsed domain is unchanged by combining", expected="unchanged", observed="changed"))
            later = RA.parse_domain_text("(define (domain u) (:requirements :strips) (:predicates (zz)) (:action a :parameters () :precondition (and (zz)) :effect (and (zz))))")
            if sorted(later.types) != ["object"] or sorted(fresh_before.types) != ["object"]:
                out.append(Failure(clause="an untyped domain parsed before / after combining has only the type object", expected=["object"], observed=(sorted(fresh_before.types), sorted(later.types))))
            if out:
                return out[:3]
            # export / re-parse of the combination, then problems against it
            cpath = tmp / "combined_domain.pddl"
            DomainExporter().export_domain(comb, cpath)
            d2 = RA.outcome(RA.parse_domain_text, cpath.read_text())
            # (with dummy actions the exported text must declare what the dummy actions use, and read back to the same domain)
            if d2[0] != "ok" or _norm_domain(V.v_domain(d2[1])) != vn_full:
                out.append(Failure(clause="exporting and re-parsing the combined domain preserves it", expected="same view", observed=str(d2)[:300]))
                return out
            rp = RA.outcome(MultiAgentProblemsConverter(tmp, "problem").combine_problems, cpath)
            if rp[0] != "ok":
                return [Failure(clause="agent problems are combined", expected="problem", observed=rp)]
            pv = V.v_problem(rp[1])
            eo = {"shared": "item", "shared2": "item"}
            ef, efl, eg, egn = set(), {}, set(), set()
            for k in ks:
                eo.update({f"ag{k}": "agent", f"t{k}": f"tool{k}", f"t{k}b": f"tool{k}", f"t{k}c": f"tool{k}"})
                ef |= {("free", (f"ag{k}",)), ("avail", ("shared",)), ("avail", ("shared2",)), (f"own{k}", (f"ag{k}",)), ("avail", (f"t{k}",)),
                       ("avail", (f"t{k}b",)), ("avail", (f"t{k}c",))}
                efl.update({("cnt", ()): 0.0, (f"load{k}", (f"ag{k}",)): float(k)})
                eg |= {("avail", ("shared",)), (f"own{k}", (f"ag{k}",))}
                egn |= {str(("cmp", ">=", ("fl", "cnt", ()), ("num", 1.0))), str(("cmp", ">=", ("fl", f"load{k}", (f"ag{k}",)), ("num", float(k))))}
            if dict(pv["objects"]) != eo:
                out.append(Failure(clause="combined objects == union", expected=sorted(eo.items()), observed=sorted(pv["objects"])))
            if pv["facts"] != ef:
                out.append(Failure(clause="combined initial facts == union", expected=sorted(ef), observed=sorted(pv["facts"])))
            if pv["fluents"] != efl:
                out.append(Failure(clause="combined fluent values == union", expected=str(efl), observed=str(pv["fluents"])))
            if sorted(pv["goal_lits"]) != sorted(eg):
                out.append(Failure(clause="combined goal literals == union without duplicates", expected=sorted(eg), observed=sorted(pv["goal_lits"])))
            if sorted(map(str, pv["goal_num"])) != sorted(egn):
                out.append(Failure(clause="combined numeric goals == union without duplicates", expected=sorted(egn), observed=sorted(map(str, pv["goal_num"]))))
        finally:
            shutil.rmtree(tmp, ignore_errors=True)
        return out[:3]


HARNESSES = [Combine()]

# ---- deductive contracts: locate_domains builds exactly the union (last found file wins on a clash) and writes nothing that existed --------
# The content of an agent file is a function of its path (trusted: DomainParser.parse_domain, bounded under C01): fk(tag, path) is the
# key sequence and fm(tag, path) the entries of the parsed domain's dictionary number `tag` (0 types, 1 predicates, 2 constants, 3 actions,
# 4 functions).  U / V are the mathematical specification of the merge over the first n found files, on top of a base dictionary.
import z3 as _z3
from pyvc.core import Val as _Val
from pyvc.sorts import I as _I, S as _S
_SS = _z3.SeqSort(_S)
_SI = _z3.SeqSort(_I)
_AM = _z3.ArraySort(_S, _I)
_fk = _z3.Function("file_keys", _I, _I, _SS)
_fm = _z3.Function("file_map", _I, _I, _AM)
_U = _z3.RecFunction("union_has", _I, _SI, _SS, _S, _I, _z3.BoolSort())
_V = _z3.RecFunction("union_val", _I, _SI, _AM, _S, _I, _I)
_t, _n = _z3.Ints("u_tag u_n")
_p, _bk, _bm, _k = _z3.Const("u_paths", _SI), _z3.Const("u_bk", _SS), _z3.Const("u_bm", _AM), _z3.Const("u_k", _S)
from pyvc.sorts import rec_define
rec_define(_U, [_t, _p, _bk, _k, _n], _z3.If(_n <= 0, _z3.Contains(_bk, _z3.Unit(_k)),
                     _z3.Or(_z3.Contains(_fk(_t, _p[_n - 1]), _z3.Unit(_k)), _U(_t, _p, _bk, _k, _n - 1))))
rec_define(_V, [_t, _p, _bm, _k, _n], _z3.If(_n <= 0, _z3.Select(_bm, _k),
                     _z3.If(_z3.Contains(_fk(_t, _p[_n - 1]), _z3.Unit(_k)), _z3.Select(_fm(_t, _p[_n - 1]), _k), _V(_t, _p, _bm, _k, _n - 1))))
_glob = _z3.Function("glob_result", _I, _S, _SI)
_psrc = _z3.Function("parser_source", _I, _I)
_TAGS = {"types": 0, "predicates": 1, "constants": 2, "actions": 3, "functions": 4}
_DCLS = {"types": "dict_PDDLType", "predicates": "dict_Predicate", "constants": "dict_PDDLObject", "actions": "dict_str_ref", "functions": "dict_str_ref"}


def _h_content(interp, st, a):
    """content(domain, path): every vocabulary dictionary of `domain` holds exactly what the file `path` declares"""
    dom, path = a
    cs = []
    for f, tag in _TAGS.items():
        d = interp.read_field(st, dom, "Domain", f)
        cs.append(interp.read_field(st, d, _DCLS[f], "keys").t == _fk(tag, path.t))
        cs.append(interp.read_field(st, d, _DCLS[f], "map").t == _fm(tag, path.t))
    return _Val(_z3.And(*cs), "bool")


_C17_HOOKS = {
    "union_has": lambda interp, st, a: _Val(_U(a[0].t, a[1].t, a[2].t, a[3].t, a[4].t), "bool"),
    "union_val": lambda interp, st, a: _Val(_V(a[0].t, a[1].t, a[2].t, a[3].t, a[4].t), ("ref", "opaque")),
    "glob_result": lambda interp, st, a: _Val(_glob(a[0].t, a[1].t), ("seq", ("ref", "Path"))),
    "parser_source": lambda interp, st, a: _Val(_psrc(a[0].t), ("ref", "Path")),
    "content": _h_content,
    "action_name": lambda interp, st, a: interp.read_field(st, _Val(a[0].t, ("ref", "Action")), "Action", "name"),
    "dict_map": lambda interp, st, a: interp.read_field(st, a[0], a[0].ty[1], "map"),
    "empty_keys": lambda interp, st, a: _Val(_z3.Empty(_SS), ("seq", "str")),
}
_MC = "multi_agent.multi_agent_domain_converter:MultiAgentDomainsConverter."
_CONV = ("ref", "MultiAgentDomainsConverter")
_DOM = ("ref", "Domain")
_PATHS = 'glob_result(self.domains_directory_path, "domain-*.pddl")'
_GLOBALS = {"DEFAULT_TYPES": ("ref", "dict_PDDLType", "G_DEFAULT_TYPES"), "DUMMY_ADD_PREDICATE": ("ref", "Predicate", "G_DUMMY_ADD"),
            "DUMMY_DEL_PREDICATE": ("ref", "Predicate", "G_DUMMY_DEL")}


def _union_post(field, n, base_keys, base_map, dom="result"):
    tag = _TAGS[field]
    d = f"{dom}.{field}"
    return [f"forall_str(lambda k: (k in {d}) == union_has({tag}, {_PATHS}, {base_keys}, k, {n}))",
            f"forall_str(lambda k: implies(k in {d}, {d}[k] == union_val({tag}, {_PATHS}, {base_map}, k, {n})))"]


_LOOP_INV = []
_POST = []
for _f in _TAGS:
    _bk_s = "old(DEFAULT_TYPES.keys())" if _f == "types" else "empty_keys()"
    _bm_s = "old(dict_map(DEFAULT_TYPES))"
    _LOOP_INV += _union_post(_f, "_i", _bk_s, _bm_s, dom="combined_domain")
    _POST += _union_post(_f, f"len({_PATHS})", _bk_s, _bm_s)
CONTRACTS["pathlib:Path.glob"] = dict(
    prop="C17", assumed=True, external=True, params={"self": ("ref", "Path"), "pattern": "str"}, returns=("seq", ("ref", "Path")), allocates=False,
    ensures=["result == glob_result(self, pattern)", "forall_int(lambda i: allocated(result[i]), 0, len(result))"], raises={}, modifies=[],
    spec_hooks=_C17_HOOKS)
CONTRACTS["lisp_parsers.domain_parser:DomainParser.__init__"] = dict(
    prop="C17", assumed=True, drop_self=True, params={"domain_path": ("ref", "Path"), "partial_parsing": "bool", "enable_disjunctions": "bool"},
    returns=("ref", "DomainParser"),
    ensures=["fresh(result)", "parser_source(result) == domain_path"], raises={}, modifies=[], spec_hooks=_C17_HOOKS)
CONTRACTS["lisp_parsers.domain_parser:DomainParser.parse_domain"] = dict(
    prop="C17", assumed=True, params={"self": ("ref", "DomainParser")}, returns=_DOM,
    ensures=["fresh(result)", "fresh(result.types)", "fresh(result.predicates)", "fresh(result.constants)", "fresh(result.actions)",
             "fresh(result.functions)", "fresh(result.requirements)", "content(result, parser_source(self))"],
    raises={"SyntaxError": "True", "ValueError": "True", "KeyError": "True", "IndexError": "True", "AssertionError": "True", "AttributeError": "True",
            "TypeError": "True"},
    modifies=[], spec_hooks=_C17_HOOKS)
_ACT = "combined_domain.actions"
CONTRACTS[_MC + "locate_domains"] = dict(
    prop="C17", params={"self": _CONV, "add_dummy_actions": "bool"}, locals={"combined_domain": _DOM, "agent_domain": _DOM}, returns=_DOM,
    globals=_GLOBALS, dict_values={"dict_str_ref": "opaque"}, dict_membership_only=True,
    requires=["allocated(self)", "allocated(self.domains_directory_path)", "allocated(DEFAULT_TYPES)", "allocated(DUMMY_ADD_PREDICATE)",
              "allocated(DUMMY_DEL_PREDICATE)",
              "forall_int(lambda i: forall_int(lambda j: implies(i != j, DEFAULT_TYPES.keys()[i] != DEFAULT_TYPES.keys()[j]), 0, len(DEFAULT_TYPES.keys())), 0, len(DEFAULT_TYPES.keys()))"],
    ensures=["fresh(result)", "fresh(result.types)", "fresh(result.predicates)", "fresh(result.constants)", "fresh(result.actions)", "fresh(result.functions)",
             # the module-level default table is what it was (a new Domain starts from a copy of it)
             "DEFAULT_TYPES.keys() == old(DEFAULT_TYPES.keys())", "dict_map(DEFAULT_TYPES) == old(dict_map(DEFAULT_TYPES))"]
    + [("implies(not add_dummy_actions, " + p + ")") for p in _POST]
    + [("implies(add_dummy_actions, " + p + ")") for f in ("types", "constants", "functions") for p in _union_post(f, f"len({_PATHS})", "old(DEFAULT_TYPES.keys())" if f == "types" else "empty_keys()", "old(dict_map(DEFAULT_TYPES))")]
    + [# with dummy actions: the union plus exactly the dummy predicate and the two dummy actions; entries of the union keep their values
       f"implies(add_dummy_actions, forall_str(lambda k: (k in result.predicates) == (union_has(1, {_PATHS}, empty_keys(), k, len({_PATHS})) or k == DUMMY_ADD_PREDICATE.name)))",
       f"implies(add_dummy_actions, forall_str(lambda k: implies(k in result.predicates and k != DUMMY_ADD_PREDICATE.name, result.predicates[k] == union_val(1, {_PATHS}, old(dict_map(DEFAULT_TYPES)), k, len({_PATHS})))))",
       "implies(add_dummy_actions, result.predicates[DUMMY_ADD_PREDICATE.name] == DUMMY_ADD_PREDICATE)",
       f"implies(add_dummy_actions, forall_str(lambda k: (k in result.actions) == (union_has(3, {_PATHS}, empty_keys(), k, len({_PATHS})) or k == 'dummy-add-predicate-action' or k == 'dummy-del-predicate-action')))",
       f"implies(add_dummy_actions, forall_str(lambda k: implies(k in result.actions and k != 'dummy-add-predicate-action' and k != 'dummy-del-predicate-action', result.actions[k] == union_val(3, {_PATHS}, old(dict_map(DEFAULT_TYPES)), k, len({_PATHS})))))",
       "implies(add_dummy_actions, fresh(result.actions['dummy-add-predicate-action']) and fresh(result.actions['dummy-del-predicate-action']))",
       "implies(add_dummy_actions, action_name(result.actions['dummy-add-predicate-action']) == 'dummy-add-predicate-action' and action_name(result.actions['dummy-del-predicate-action']) == 'dummy-del-predicate-action')",
       # the module-level dummy predicates are not written
       "DUMMY_ADD_PREDICATE.name == old(DUMMY_ADD_PREDICATE.name)", "DUMMY_ADD_PREDICATE.signature == old(DUMMY_ADD_PREDICATE.signature)"],
    raises={"SyntaxError": "True", "ValueError": "True", "KeyError": "True", "IndexError": "True", "AssertionError": "True", "AttributeError": "True",
            "TypeError": "True"},
    modifies=[],
    calls={"Path.glob": "pathlib:Path.glob", "DomainParser": "lisp_parsers.domain_parser:DomainParser.__init__",
           "DomainParser.parse_domain": "lisp_parsers.domain_parser:DomainParser.parse_domain"},
    loops={0: dict(invariants=["fresh(combined_domain)", "fresh(combined_domain.types)", "fresh(combined_domain.predicates)", "fresh(combined_domain.constants)",
                               "fresh(combined_domain.actions)", "fresh(combined_domain.functions)",
                               "combined_domain.types != combined_domain.predicates", "combined_domain.types != combined_domain.constants",
                               "combined_domain.types != combined_domain.actions", "combined_domain.types != combined_domain.functions",
                               "combined_domain.predicates != combined_domain.constants", "combined_domain.predicates != combined_domain.actions",
                               "combined_domain.predicates != combined_domain.functions", "combined_domain.constants != combined_domain.actions",
                               "combined_domain.constants != combined_domain.functions", "combined_domain.actions != combined_domain.functions",
                               "DEFAULT_TYPES.keys() == old(DEFAULT_TYPES.keys())", "dict_map(DEFAULT_TYPES) == old(dict_map(DEFAULT_TYPES))"] + _LOOP_INV,
                   modifies=["Domain.name", "Domain.requirements", "dict_PDDLType.keys", "dict_PDDLType.map", "dict_str_ref.keys", "dict_str_ref.map", "dict_Predicate.keys", "dict_Predicate.map",
                             "dict_PDDLObject.keys", "dict_PDDLObject.map"])},
    spec_hooks=_C17_HOOKS)
