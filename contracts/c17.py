"""C17 — combining agent domains / problems yields their union and disturbs nothing else (bounded)."""
import itertools
import os
import random
import shutil
import tempfile
from pathlib import Path
from pyvc.bounded import Harness, Failure
from spec import pddl_sem as PS, gen as G, repo_api as RA, sexp as SX, views as V
from contracts.c01 import _norm_domain

CONTRACTS = {}
LEVEL = "other"
EXPLANATION = ("bounded stand-in: the multi-agent scenario domain/problem is split into 1-3 overlapping per-agent files in every file order "
               "(file names permuted so that glob order varies), combined by MultiAgentDomainsConverter / MultiAgentProblemsConverter and "
               "compared with the union by view; Domain().types, a previously parsed domain and module-level objects are digested before and after.")
TRUSTED = ["spec/views.py", "glob order is varied through file names only (the OS decides the actual discovery order)"]
ASSUMPTIONS = ["bounded: 3 agents; splits = each agent file holds the shared vocabulary plus that agent's private predicate/action/objects/goals"]

SHARED_HEAD = """(define (domain ma)
(:requirements :typing :negative-preconditions :fluents)
(:types agent item - object {extra_types})
(:predicates (free ?a - agent) (avail ?i - item) {priv_preds})
(:functions (cnt) {priv_funcs})
"""
COMMON_ACTION = "(:action work :parameters (?a - agent) :precondition (and (free ?a)) :effect (and (increase (cnt) 1)))\n"


def agent_domain(k):
    priv = f"(:action act{k} :parameters (?a - agent ?i - item) :precondition (and (avail ?i) (own{k} ?a)) :effect (and (not (avail ?i)) (increase (load{k} ?a) 1)))\n"
    return SHARED_HEAD.format(extra_types=f"tool{k} - item", priv_preds=f"(own{k} ?a - agent)", priv_funcs=f"(load{k} ?a - agent)") + COMMON_ACTION + priv + ")\n"


def union_domain_text(ks):
    return SHARED_HEAD.format(extra_types=" ".join(f"tool{k} - item" for k in ks), priv_preds=" ".join(f"(own{k} ?a - agent)" for k in ks),
                              priv_funcs=" ".join(f"(load{k} ?a - agent)" for k in ks)) + COMMON_ACTION + \
        "".join(f"(:action act{k} :parameters (?a - agent ?i - item) :precondition (and (avail ?i) (own{k} ?a)) :effect (and (not (avail ?i)) (increase (load{k} ?a) 1)))\n" for k in ks) + ")\n"


def agent_problem(k, ks):
    return (f"(define (problem pr) (:domain ma) (:objects ag{k} - agent shared shared2 - item t{k} t{k}b t{k}c - tool{k})\n"
            f"(:init (free ag{k}) (avail shared) (avail shared2) (own{k} ag{k}) (avail t{k}) (avail t{k}b) (avail t{k}c) (= (cnt) 0) (= (load{k} ag{k}) {k}))\n"
            f"(:goal (and (avail shared) (own{k} ag{k}) (>= (cnt) 1) (>= (load{k} ag{k}) {k}))))")


def digest_globals():
    from pddl_plus_parser.models import Domain
    from pddl_plus_parser.models import pddl_domain, pddl_type
    d = Domain()
    return {"Domain().types": sorted((n, t.parent.name if t.parent else None) for n, t in d.types.items()),
            "DEFAULT_TYPES": sorted(pddl_domain.DEFAULT_TYPES), "ObjectType.parent": str(pddl_type.ObjectType.parent),
            "Domain().predicates": sorted(d.predicates), "Domain().actions": sorted(d.actions)}


class Combine(Harness):
    name = "c17-combine"
    prop = "C17"
    functions = ("MultiAgentDomainsConverter.locate_domains", "MultiAgentDomainsConverter._add_dummy_actions", "MultiAgentDomainsConverter.export_combined_domain",
                 "MultiAgentProblemsConverter.combine_problems", "MultiAgentProblemsConverter.export_combined_problem", "Domain.__init__")
    bound = {"quick": "agent subsets of {1,2,3} (7) x all file-name permutations (<= 6) x dummy actions on/off; preceded and followed by parsing an unrelated typed and an untyped domain", "thorough": "same"}
    rule = "(agent subset, name permutation, dummy flag); non-trivial = >= 2 agents; distinct by input"

    def inputs(self, tier, seed):
        for n in (1, 2, 3):
            for ks in itertools.combinations((1, 2, 3), n):
                for perm in itertools.permutations(range(n)):
                    for dummy in (False, True):
                        yield {"agents": list(ks), "names": list(perm), "dummy": dummy}

    def nontrivial_key(self, inp):
        return str(inp) if len(inp["agents"]) >= 2 else None

    def check(self, inp):
        from pddl_plus_parser.multi_agent import MultiAgentDomainsConverter, MultiAgentProblemsConverter
        from pddl_plus_parser.exporters import DomainExporter
        self.cases += 1
        ks = inp["agents"]
        out = []
        tmp = Path(tempfile.mkdtemp(prefix="pyvc-c17-", dir=RA.tmpdir()))
        try:
            for k, nm in zip(ks, inp["names"]):
                (tmp / f"domain-{nm}x{k}.pddl").write_text(agent_domain(k))
                (tmp / f"problem-{nm}x{k}.pddl").write_text(agent_problem(k, ks))
            before_glob = digest_globals()
            other = RA.parse_domain_text(G.scenario_domain_text())
            other_v = _norm_domain(V.v_domain(other))
            fresh_before = RA.parse_domain_text("(define (domain u) (:requirements :strips) (:predicates (zz)) (:action a :parameters () :precondition (and (zz)) :effect (and (zz))))")
            r = RA.outcome(MultiAgentDomainsConverter(tmp).locate_domains, inp["dummy"])
            if r[0] != "ok":
                return [Failure(clause="agent domains are combined", expected="domain", observed=r)]
            comb = r[1]
            exp = PS.sem_domain(SX.read_text(union_domain_text(ks)))
            v = V.v_domain(comb)
            vn, en = _norm_domain(v), _norm_domain(exp)
            if inp["dummy"]:
                for nm in ("dummy-add-predicate-action", "dummy-del-predicate-action"):
                    if nm not in vn["actions"]:
                        out.append(Failure(clause="dummy actions are added on request", expected=nm, observed=sorted(vn["actions"])))
                    vn["actions"].pop(nm, None)
                vn["predicates"].pop("dummy-additional-predicate", None)
            for key in ("types", "predicates", "functions"):
                if vn[key] != en[key]:
                    out.append(Failure(clause=f"combined {key} == union of the agents' {key}", expected=str(en[key]), observed=str(vn[key])))
            if vn["actions"] != en["actions"]:
                out.append(Failure(clause="combined actions == union of the agents' actions", expected=sorted(en["actions"]), observed=sorted(vn["actions"])))
            # nothing else disturbed
            after_glob = digest_globals()
            if after_glob != before_glob:
                out.append(Failure(clause="a freshly created Domain() and module-level objects are unchanged by combining", expected=str(before_glob), observed=str(after_glob)))
            if _norm_domain(V.v_domain(other)) != other_v:
                out.append(Failure(clause="a previously parsed domain is unchanged by combining", expected="unchanged", observed="changed"))
            later = RA.parse_domain_text("(define (domain u) (:requirements :strips) (:predicates (zz)) (:action a :parameters () :precondition (and (zz)) :effect (and (zz))))")
            if sorted(later.types) != ["object"] or sorted(fresh_before.types) != ["object"]:
                out.append(Failure(clause="an untyped domain parsed before / after combining has only the type object", expected=["object"], observed=(sorted(fresh_before.types), sorted(later.types))))
            if out:
                return out[:3]
            # export / re-parse of the combination, then problems against it
            cpath = tmp / "combined_domain.pddl"
            if inp["dummy"]:
                return out
            DomainExporter().export_domain(comb, cpath)
            d2 = RA.outcome(RA.parse_domain_text, cpath.read_text())
            if d2[0] != "ok" or _norm_domain(V.v_domain(d2[1])) != vn:
                out.append(Failure(clause="exporting and re-parsing the combined domain preserves it", expected="same view", observed=str(d2)[:300]))
                return out
            rp = RA.outcome(MultiAgentProblemsConverter(tmp, "problem").combine_problems, cpath)
            if rp[0] != "ok":
                return [Failure(clause="agent problems are combined", expected="problem", observed=rp)]
            pv = V.v_problem(rp[1])
            eo = {"shared": "item", "shared2": "item"}
            ef, efl, eg, egn = set(), {}, set(), set()
            for k in ks:
                eo.update({f"ag{k}": "agent", f"t{k}": f"tool{k}", f"t{k}b": f"tool{k}", f"t{k}c": f"tool{k}"})
                ef |= {("free", (f"ag{k}",)), ("avail", ("shared",)), ("avail", ("shared2",)), (f"own{k}", (f"ag{k}",)), ("avail", (f"t{k}",)),
                       ("avail", (f"t{k}b",)), ("avail", (f"t{k}c",))}
                efl.update({("cnt", ()): 0.0, (f"load{k}", (f"ag{k}",)): float(k)})
                eg |= {("avail", ("shared",)), (f"own{k}", (f"ag{k}",))}
                egn |= {str(("cmp", ">=", ("fl", "cnt", ()), ("num", 1.0))), str(("cmp", ">=", ("fl", f"load{k}", (f"ag{k}",)), ("num", float(k))))}
            if dict(pv["objects"]) != eo:
                out.append(Failure(clause="combined objects == union", expected=sorted(eo.items()), observed=sorted(pv["objects"])))
            if pv["facts"] != ef:
                out.append(Failure(clause="combined initial facts == union", expected=sorted(ef), observed=sorted(pv["facts"])))
            if pv["fluents"] != efl:
                out.append(Failure(clause="combined fluent values == union", expected=str(efl), observed=str(pv["fluents"])))
            if sorted(pv["goal_lits"]) != sorted(eg):
                out.append(Failure(clause="combined goal literals == union without duplicates", expected=sorted(eg), observed=sorted(pv["goal_lits"])))
            if sorted(map(str, pv["goal_num"])) != sorted(egn):
                out.append(Failure(clause="combined numeric goals == union without duplicates", expected=sorted(egn), observed=sorted(map(str, pv["goal_num"]))))
        finally:
            shutil.rmtree(tmp, ignore_errors=True)
        return out[:3]


HARNESSES = [Combine()]
