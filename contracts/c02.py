"""C02 — applicability == truth of the instantiated precondition.  Contracts on the evaluator's leaf functions (P) and a
bounded truth-table harness over generated formulas x all states of a 2-object universe."""
import itertools
import random
from pyvc.bounded import Harness, Failure
from spec import pddl_sem as PS, semantics as SEM, gen as G, repo_api as RA, sexp as SX

GP = "models.grounded_precondition:"
CONTRACTS = {
    GP + "BinaryOperator[and]": dict(prop="C02", params={"x": "bool", "y": "bool"}, returns="bool", allocates=False,
                                     ensures=["result == (x and y)"], raises={}, modifies=[]),
    GP + "BinaryOperator[or]": dict(prop="C02", params={"x": "bool", "y": "bool"}, returns="bool", allocates=False,
                                    ensures=["result == (x or y)"], raises={}, modifies=[]),
}
LEVEL = "other"
EXPLANATION = ("bounded stand-in: truth tables of generated preconditions (literals, (in)equality, numeric comparisons, and/or nesting, "
               "forall over a type and its subtypes) against the spec semantics holds(), for every state over the atoms the formula reads "
               "and every argument tuple incl. repeated objects and a domain constant; quantified formulas also with an extra declared object that occurs in no fact or fluent of the state. Deductive contracts on the evaluator are listed in "
               "functions_under_contract when present.")
TRUSTED = ["spec/semantics.py:holds (PDDL semantics)", "spec/pddl_sem.py:sem_pre (independent reading of the formula text)"]
ASSUMPTIONS = ["bounded: 2 objects (o1 - a, o2 - b, b < a) + optional constant k; formulas from spec/gen.py:formulas(); fluent values in {0,1,2}"]


HIDDEN_FORMULAS = ["(and (or (p ?x) (forall (?z - a) (and (q ?z)))))", "(and (g) (or (forall (?z - a) (or (p ?z) (q ?z))) (r ?x ?y)))",
                   "(and (or (and (forall (?z - object) (and (not (r ?z ?x)))) (p ?x)) (q ?y)))", "(and (forall (?z - a) (and (not (r ?z ?x)))))"]


class TruthTables(Harness):
    name = "c02-truth"
    prop = "C02"
    shards = 12
    functions = ("Operator.is_applicable", "GroundedPrecondition.is_applicable", "GroundedPrecondition._is_condition_applicable",
                 "GroundedPrecondition._ground", "GroundedPrecondition._validate_predicates_hold",
                 "GroundedPrecondition._validate_equality_holds", "GroundedPrecondition._validate_universal_precondition",
                 "GroundedPrecondition._validate_numeric_expression_hold", "set_expression_value", "evaluate_expression")
    bound = {"quick": "formulas(level 1) of spec/gen.py (~150 bodies: 12 atoms, pairs under and/or, nested or/and, forall over a/b/object with and/or bodies) + 5 bodies with the constant k; all 4 (9 with k) argument tuples; every assignment of the ground atoms the formula reads x fluents in {0,1,2} (capped at 300 states per formula, seeded sample)",
             "thorough": "formulas(level 2), cap 2000 states"}
    rule = "formula x argument tuple x state; non-trivial = formula with an operator, quantifier or comparison; distinct by (formula, args, state) counted per formula as formula text"

    def inputs(self, tier, seed):
        lvl = 1 if tier == "quick" else 2
        for f in G.formulas(lvl):
            yield {"pre": f, "const": False, "tier": tier}
        for f in G.const_formulas():
            yield {"pre": f, "const": True, "tier": tier}
        for f in G.formulas(lvl):
            if "forall" in f and "(f " not in f and "(d " not in f and "(c)" not in f:
                yield {"pre": f, "const": False, "tier": tier, "hidden": True}
        for f in HIDDEN_FORMULAS:
            yield {"pre": f, "const": False, "tier": tier, "hidden": True}

    def nontrivial_key(self, inp):
        return inp["pre"] if inp["pre"] != "(and)" else None

    def check(self, inp):
        from pddl_plus_parser.models import Operator, PDDLObject
        cap = 300 if inp.get('tier', 'quick') == 'quick' else 2000
        text = G.domain_text([("act", "?x - a ?y - a", inp["pre"], "(and (g))")], with_const=inp["const"])
        d = RA.outcome(RA.parse_domain_text, text)
        if d[0] != "ok":
            return [Failure(clause="supported precondition is accepted by the domain parser", expected="domain", observed=d)]
        dom = d[1]
        F = PS.sem_pre(SX.read_text(inp["pre"]), G.PREDS, G.FUNCS)
        objects = dict(G.OBJECTS)
        hidden = inp.get("hidden", False)
        if hidden:
            objects["o9"] = "a"      # a declared object that occurs in no fact and no fluent of any enumerated state
        pobjs = {n: PDDLObject(n, dom.types[t]) for n, t in objects.items()}
        allobjs = dict(objects)
        if inp["const"]:
            allobjs.update(G.CONSTS)
        names = [n for n in allobjs if n != "o9"]
        tuples = list(itertools.product(names, repeat=2))
        envs = [{"?x": a, "?y": b} for a, b in tuples]
        atoms, fls = G.mentioned([F], envs, allobjs)
        _, all_fls = G.ground_atoms({k: v for k, v in allobjs.items() if k != "o9"})
        atoms = [a for a in atoms if "o9" not in a[1]]
        fls = [f for f in fls if "o9" not in f[1]]
        rnd = random.Random(hash(inp["pre"]) & 0xffff)
        out = []
        action = dom.actions["act"]
        ops = [Operator(action, dom, [a, b], problem_objects=pobjs) for a, b in tuples]   # one operator per call, reused across states
        for facts, fluents in G.states_over(atoms, fls, all_fluents=all_fls, max_states=cap, rnd=rnd):
            st = RA.make_state(dom, facts, fluents)
            for (a, b), env, op in zip(tuples, envs, ops):
                exp = SEM.holds(F, env, (facts, fluents), allobjs, G.TYPES_DECL)
                got = RA.outcome(op.is_applicable, st)
                self.cases += 1
                if got != ("ok", exp):
                    out.append(Failure(clause="is_applicable(state) == holds(precondition[args], state)", expected=exp, observed=got,
                                       input={**inp, "args": [a, b], "facts": sorted(map(list, facts)), "fluents": {str(k): v for k, v in fluents.items() if v}}))
                    if len(out) >= 2:
                        return out
        return out


HARNESSES = [TruthTables()]

# ---- deductive contracts on the (in)equality evaluator and its grounding ------------------------------------
GPC = "models.grounded_precondition:GroundedPrecondition."
_EQ = "seq(preconditions.equality_preconditions)"
_NE = "seq(preconditions.inequality_preconditions)"
CONTRACTS[GPC + "_validate_equality_holds"] = dict(
    prop="C02", params={"preconditions": ("ref", "Precondition")}, returns="bool", allocates=False,
    # (in)equality by object identity; for an 'or' node the pairs are disjuncts (empty disjunction false), otherwise conjuncts
    ensures=[f"implies(preconditions.binary_operator == 'or', result == (exists_int(lambda i: {_EQ}[i][0] == {_EQ}[i][1], 0, len({_EQ})) "
             f"or exists_int(lambda i: {_NE}[i][0] != {_NE}[i][1], 0, len({_NE}))))",
             f"implies(preconditions.binary_operator != 'or', result == (forall_int(lambda i: {_EQ}[i][0] == {_EQ}[i][1], 0, len({_EQ})) "
             f"and forall_int(lambda i: {_NE}[i][0] != {_NE}[i][1], 0, len({_NE}))))"],
    raises={}, modifies=[])
CONTRACTS[GPC + "_ground_equality_objects"] = dict(
    prop="C02", params={"equality_preconditions": ("ref", "set_pairs"), "parameters_map": ("ref", "dict_str_str")},
    returns=("seq", ("tuple", ("str", "str"))),
    # substitution of the call's arguments, pair by pair; nothing added or omitted; KeyError iff some name is unmapped
    ensures=["len(result) == len(seq(equality_preconditions))",
             "forall_int(lambda i: result[i][0] == parameters_map[seq(equality_preconditions)[i][0]] and "
             "result[i][1] == parameters_map[seq(equality_preconditions)[i][1]], 0, len(result))"],
    raises={"KeyError": "exists_int(lambda i: seq(equality_preconditions)[i][0] not in parameters_map or "
                        "seq(equality_preconditions)[i][1] not in parameters_map, 0, len(seq(equality_preconditions)))"},
    must_raise=["exists_int(lambda i: seq(equality_preconditions)[i][0] not in parameters_map or "
                "seq(equality_preconditions)[i][1] not in parameters_map, 0, len(seq(equality_preconditions)))"],
    modifies=[])

# ---- deductive: a numeric conjunct / disjunct is evaluated on the fluent values of the state ------------------------------------------
# Uses the contracts discharged under C12: set_expression_value (every fluent leaf of the tree receives the state's value, 0 if the
# state does not define it; nothing else is written) and evaluate_expression (== cmp_spec: the comparison of the two sides' values with
# the stated tolerance), and the and/or fold above.
from contracts.c12 import CONTRACTS as _C12_CONTRACTS, _HOOKS as _C12_HOOKS, _SEV_HOOKS as _C12_SEV_HOOKS, NE as _NE12, EPS_GLOBAL as _EPS
_C02N_HOOKS = dict(_C12_HOOKS, **_C12_SEV_HOOKS)
for _k in (_NE12 + "set_expression_value", _NE12 + "evaluate_expression@cmp"):
    CONTRACTS[_k] = dict(_C12_CONTRACTS[_k], prop="C12")
_ROOT = "condition.root"
CONTRACTS[GPC + "_validate_numeric_expression_hold"] = dict(
    prop="C02",
    params={"self": ("ref", "GroundedPrecondition"), "condition": ("ref", "NumericalExpressionTree"), "prev_is_applicable": "bool",
            "preconditions": ("ref", "Precondition"), "state": ("ref", "State")},
    returns="bool", globals=_EPS, allocates=False,
    requires=["allocated(self)", "allocated(condition)", "allocated(preconditions)", "allocated(state)", "allocated(state.state_fluents)",
              # a numeric condition is a comparison over well-formed arithmetic; the state's fluent objects are not the tree's own leaves
              f"is_cmp_node({_ROOT})", f"tree_refs_ok({_ROOT})", f"separate({_ROOT}, state.state_fluents)",
              # the node's connective is one of the two the object model produces
              "preconditions.binary_operator == 'and' or preconditions.binary_operator == 'or'"],
    ensures=[
        # the tree's fluent leaves now hold the state's values (0 for a fluent the state does not define); nothing else was written
        f"leaves_set({_ROOT}, state.state_fluents)", f"others_kept({_ROOT})",
        # the answer is the comparison under those values, folded into the running result by the node's connective
        f"implies(preconditions.binary_operator == 'and', result == (prev_is_applicable and cmp_spec({_ROOT})))",
        f"implies(preconditions.binary_operator == 'or', result == (prev_is_applicable or cmp_spec({_ROOT})))"],
    raises={"ZeroDivisionError": "True"},
    modifies=["PDDLFunction.stored_value"],
    calls={"set_expression_value": _NE12 + "set_expression_value", "evaluate_expression": _NE12 + "evaluate_expression@cmp",
           "BinaryOperator[and]": "models.grounded_precondition:BinaryOperator[and]", "BinaryOperator[or]": "models.grounded_precondition:BinaryOperator[or]"},
    spec_hooks=_C02N_HOOKS)
