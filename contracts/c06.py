"""C06 — subtype relation: contracts on PDDLType.is_sub_type(_aux), DomainParser.parse_types; bounded harness over
type forests under every permutation / regrouping of the declaration."""
import itertools
import random
import z3
from pyvc.core import Val
from pyvc.sorts import anc, RANK, I
from pyvc.bounded import Harness, Failure

TY = "models.pddl_type:PDDLType."


def _arrs(interp, st):
    return (interp.heap_arr(st, "PDDLType", "name", "str"), interp.heap_arr(st, "PDDLType", "parent", ("ref", "PDDLType")))


def _hook_anc(interp, st, args):
    N, P = _arrs(interp, st)
    return Val(anc(N, P, args[0].t, args[1].t), "bool")


def _hook_rank(interp, st, args):
    return Val(z3.Select(RANK, args[0].t), "int")


def _hook_chain_wf(interp, st, args):
    """the parent relation is well founded: every type's parent is strictly smaller in the ghost rank (acyclic chains)"""
    N, P = _arrs(interp, st)
    x = z3.Const("x!wf", I)
    # stated for every reference (no allocation bound), so that it is trivially preserved by allocations of other objects
    body = z3.And(z3.Select(RANK, x) >= 0,
                  z3.Implies(z3.Select(P, x) != 0, z3.Select(RANK, z3.Select(P, x)) < z3.Select(RANK, x)))
    return Val(z3.ForAll([x], body, patterns=[z3.Select(P, x)]), "bool")


HOOKS = {"anc": _hook_anc, "rank": _hook_rank, "chain_wf": _hook_chain_wf}

CONTRACTS = {
    TY + "is_sub_type_aux": dict(
        prop="C06",
        params={"my_type": ("ref", "PDDLType"), "other_type": ("ref", "PDDLType")},
        returns="bool",
        requires=["chain_wf()"],
        # the answer is exactly: some type on my_type's parent chain (inclusive) carries other_type's name
        ensures=["result == anc(my_type, other_type.name)"],
        raises={}, modifies=[],
        decreases="rank(my_type)",
        calls={"PDDLType.is_sub_type_aux": TY + "is_sub_type_aux"},
        static_calls={"PDDLType.is_sub_type_aux": True},
        spec_hooks=HOOKS,
    ),
    TY + "is_sub_type": dict(
        prop="C06",
        params={"self": ("ref", "PDDLType"), "other_type": ("ref", "PDDLType")},
        returns="bool",
        requires=["chain_wf()"],
        ensures=["result == anc(self, other_type.name)"],
        raises={}, modifies=[],
        calls={"PDDLType.is_sub_type_aux": TY + "is_sub_type_aux"},
        static_calls={"PDDLType.is_sub_type_aux": True},
        spec_hooks=HOOKS,
    ),
}

LEVEL = "proof"
EXPLANATION = ("is_sub_type(_aux) proved for every heap of PDDLType objects with an acyclic parent chain: the answer is the "
               "ancestor test along parent links by name. That parse_types builds, for every ordering and grouping of the "
               "declaration, a heap whose parent links mirror the declared child->parent map (by identity of the registered "
               "objects) is a bounded stand-in: all forests up to the stated size under all permutations/regroupings.")
TRUSTED = ["heap model of PDDLType (fields name, parent)", "spec/pddl_sem.py:sem_types/is_subtype (independent reading of the declaration)"]
ASSUMPTIONS = ["parse_types itself is checked bounded, not proved (dict comprehension allocation + relink loop not yet under deductive contract)",
               "lemma 'mirror of decl + ancestor test == reflexive-transitive closure of decl' is argued on paper (DESIGN §4 C06), audited by the bounded harness"]


# ------------------------------------------------------------------------------------------------ bounded
from spec import pddl_sem as PS
from spec import repo_api as RA


def _forests(max_types, max_depth):
    """All forests over names t1..tn (n <= max_types): parent[i] in {object, t_j (j<i)} with bounded depth."""
    names = [f"t{i}" for i in range(1, max_types + 1)]
    for n in range(1, max_types + 1):
        for parents in itertools.product(*[["object"] + names[:i] for i in range(n)]):
            decl = dict(zip(names[:n], parents))
            def depth(x):
                d = 0
                while x != "object":
                    x = decl[x]
                    d += 1
                return d
            if max(depth(x) for x in decl) <= max_depth:
                yield decl


def _renderings(decl, rnd, all_perms):
    """Token lists declaring `decl`: one 'child - parent' line per type under permutations, grouped siblings,
    trailing untyped names for children of object, parents that never occur on a left-hand side."""
    lines = [(c, p) for c, p in decl.items()]
    perms = list(itertools.permutations(lines)) if all_perms or len(lines) <= 4 else [tuple(rnd.sample(lines, len(lines))) for _ in range(8)]
    for perm in perms:
        toks = []
        for c, p in perm:
            toks += [c, "-", p]
        yield toks
    # grouped siblings, groups in both orders
    by_parent = {}
    for c, p in lines:
        by_parent.setdefault(p, []).append(c)
    for order in (list(by_parent), list(reversed(list(by_parent)))):
        toks = []
        for p in order:
            toks += by_parent[p] + ["-", p]
        yield toks
        # children of object as trailing untyped names
        toks = []
        for p in order:
            if p != "object":
                toks += by_parent[p] + ["-", p]
        toks += by_parent.get("object", [])
        yield toks
    # drop the declaration line of types whose parent is object and that are themselves parents: they then
    # only appear on a right-hand side
    inner = {p for p in decl.values() if p != "object" and decl.get(p) == "object"}
    if inner:
        toks = []
        for c, p in reversed(lines):
            if c in inner:
                continue
            toks += [c, "-", p]
        yield toks


class TypeForests(Harness):
    name = "c06-forests"
    prop = "C06"
    functions = ("DomainParser.parse_types", "PDDLType.is_sub_type")
    bound = {"quick": "all type forests with <= 4 types and depth <= 4, each under all permutations of its declaration lines, sibling grouping in both orders, trailing untyped names, right-hand-side-only parents; all (a, b) pairs",
             "thorough": "<= 5 types (8 random permutations each beyond 4 lines)"}
    rule = "forests enumerated by parent vector; non-trivial = depth >= 2 or a grouped / trailing / rhs-only rendering; distinct by token list"

    def inputs(self, tier, seed):
        rnd = random.Random(seed)
        n = 4 if tier == "quick" else 5
        for decl in _forests(n, 4):
            for toks in _renderings(decl, rnd, all_perms=(len(decl) <= 4)):
                yield {"tokens": toks}

    def nontrivial_key(self, inp):
        return " ".join(inp["tokens"]) if len(inp["tokens"]) > 3 else None

    def check(self, inp):
        toks = inp["tokens"]
        decl = PS.sem_types(toks)
        dp = RA.domain_parser_stub()
        r = RA.outcome(dp.parse_types, list(toks))
        if r[0] != "ok":
            return [Failure(clause="parse_types accepts a well-formed declaration", expected="types", observed=r)]
        types = r[1]
        out = []
        want_keys = set(decl) | {"object"}
        if set(types) != want_keys:
            out.append(Failure(clause="registered types == declared children + parents + object", expected=sorted(want_keys), observed=sorted(types)))
            return out
        for n, t in types.items():
            if t.name != n:
                out.append(Failure(clause="types[n].name == n", expected=n, observed=t.name))
            if n == "object":
                if t.parent is not None:
                    out.append(Failure(clause="object has no parent", expected=None, observed=str(t.parent)))
                continue
            # the chain of ancestor names reached through parent links is the declared chain up to 'object'
            # (identity of the parent objects is not required by the property: the walk is by name)
            chain, x, steps = [], t, 0
            while x is not None and steps < 50:
                if not chain or chain[-1] != x.name or x.name != "object":
                    chain.append(x.name)
                x, steps = x.parent, steps + 1
            want, y = [n], n
            while y != "object":
                y = decl[y]
                want.append(y)
            if chain != want:
                out.append(Failure(clause="ancestor-name chain through parent links == declared chain up to object", expected=want, observed=chain))
        for a in types:
            for b in types:
                got = types[a].is_sub_type(types[b])
                exp = PS.is_subtype(decl, a, b)
                if got != exp:
                    out.append(Failure(clause="is_sub_type(a, b) == reflexive-transitive closure of the declaration", expected=(a, b, exp), observed=(a, b, got)))
        return out[:5]


class TypeUseSites(Harness):
    """Every place that checks or ranges over types accepts an object exactly when its type is a subtype."""
    name = "c06-sites"
    prop = "C06"
    functions = ("ProblemParser._validate_object_types", "ProblemParser.parse_grounded_numeric_fluent",
                 "DomainParser.parse_constants", "Operator._apply_universal_effects",
                 "GroundedPrecondition._validate_universal_precondition")
    bound = {"quick": "chain t1<t2<t3<object plus an unrelated type u, declared child-first and parent-first; all (object type, required type) pairs at: init fact, init fluent, goal literal, constant argument, forall-effect range, forall-precondition range",
             "thorough": "same"}
    rule = "4x4 (object type, required type) pairs x 2 declaration orders x 6 sites; non-trivial = object type differs from required type"

    TYPES = ["t1", "t2", "t3", "u"]
    DECL = {"t1": "t2", "t2": "t3", "t3": "object", "u": "object"}

    def inputs(self, tier, seed):
        for order in ("child-first", "parent-first"):
            for ot in self.TYPES + ["object"]:
                for rt in self.TYPES + ["object"]:
                    for site in ("fact", "fluent", "goal", "constant", "forall-effect", "forall-pre"):
                        yield {"order": order, "obj_type": ot, "req_type": rt, "site": site}

    def nontrivial_key(self, inp):
        return tuple(inp.values()) if inp["obj_type"] != inp["req_type"] else None

    def _domain(self, inp):
        lines = ["t1 - t2", "t2 - t3", "t3 - object", "u - object"]
        if inp["order"] == "parent-first":
            lines = list(reversed(lines))
        rt = inp["req_type"]
        const = f"(:constants k - {inp['obj_type']})" if inp["site"] == "constant" else ""
        return f"""(define (domain d) (:requirements :typing)
 (:types {' '.join(lines)})
 {const}
 (:predicates (p ?x - {rt}) (q ?x - object) (g))
 (:functions (f ?x - {rt}))
 (:action a :parameters () :precondition (and (g)) :effect (and (forall (?y - {rt}) (when (and (g)) (q ?y)))))
 (:action b :parameters () :precondition (and (forall (?y - {rt}) (and (q ?y)))) :effect (and (g)))
)"""

    def check(self, inp):
        from pddl_plus_parser.models import Operator
        from spec import views as V
        site, ot, rt = inp["site"], inp["obj_type"], inp["req_type"]
        exp_ok = PS.is_subtype(self.DECL, ot, rt)
        d = RA.outcome(RA.parse_domain_text, self._domain(inp))
        if d[0] != "ok":
            return [Failure(clause="domain with a type chain parses", expected="domain", observed=d)]
        dom = d[1]
        objs = f"o - {ot} z - u" if site != "constant" else "z - u"
        arg = "k" if site == "constant" else "o"
        init = {"fact": f"(p {arg})", "fluent": f"(= (f {arg}) 1)", "goal": "", "constant": f"(p {arg})"}.get(site, "(g)")
        goal = f"(p {arg})" if site == "goal" else ""
        ptxt = f"(define (problem x) (:domain d) (:objects {objs}) (:init {init}) (:goal (and {goal})))"
        pr = RA.outcome(RA.parse_problem_text, ptxt, dom)
        if site in ("fact", "fluent", "goal", "constant"):
            if exp_ok and pr[0] != "ok":
                return [Failure(clause=f"{site}: object of a subtype of the required type is accepted", expected="accepted", observed=pr)]
            if not exp_ok and pr[0] == "ok":
                return [Failure(clause=f"{site}: object of a non-conforming type is rejected", expected="exception", observed="accepted")]
            return []
        if pr[0] != "ok":
            return [Failure(clause="well-typed problem accepted", expected="problem", observed=pr)]
        prob = pr[1]
        # objects of the problem: o (type ot) and z (type u)
        decl = self.DECL
        in_range = {n for n, t in (("o", ot), ("z", "u")) if PS.is_subtype(decl, t, rt)}
        if site == "forall-effect":
            st = RA.make_state(dom, [("g", ())], {})
            op = Operator(dom.actions["a"], dom, [], problem_objects=prob.objects)
            r = RA.outcome(op.apply, st)
            if r[0] != "ok":
                return [Failure(clause="forall effect applies", expected="state", observed=r)]
            got = {a[0] for (n, a) in V.v_state(r[1])[0] if n == "q"}
            if got != in_range:
                return [Failure(clause="forall effect ranges over exactly the objects whose type is a subtype of the quantified type",
                                expected=sorted(in_range), observed=sorted(got), cls="forall-range" if False else None)]
            return []
        # forall precondition: applicable iff q holds for every object in range; test with q true for nobody / for in_range only
        out = []
        op = Operator(dom.actions["b"], dom, [], problem_objects=prob.objects)
        for facts, label in (([("q", (o,)) for o in in_range], "q exactly on the range"), ([], "q nowhere")):
            st = RA.make_state(dom, facts, {})
            r = RA.outcome(op.is_applicable, st)
            exp = True if label.startswith("q exactly") else (len(in_range) == 0)
            if r != ("ok", exp):
                out.append(Failure(clause=f"forall precondition ranges over exactly the subtype objects ({label})", expected=exp, observed=r))
        return out


HARNESSES = [TypeForests(), TypeUseSites()]

# ---- deductive: parse_constants implements the typed-list reading of the token list --------------------------------------------------
# Specification (a left-to-right fold over the first i tokens, independent of the parser's data structures):
#   tl_mark(t, i)      the i-th token (if any) is read as a type name, i.e. token i-1 was the dash that announces it
#   tl_pend(t, s, i)   name s is waiting for its type after i tokens
#   tl_has(t, s, i)    name s has received a type within the first i tokens;  tl_type(t, s, i) is that type's name (the latest one)
# A finished list gives s the type tl_type if it was typed and 'object' if it is still pending (trailing untyped names).
import z3 as _z3
from pyvc.core import Val as _Val
from pyvc.sorts import I as _I, S as _S, B as _B
_SQ = _z3.SeqSort(_S)
tl_mark = _z3.RecFunction("tl_mark", _SQ, _I, _B)
tl_pend = _z3.RecFunction("tl_pend", _SQ, _S, _I, _B)
tl_has = _z3.RecFunction("tl_has", _SQ, _S, _I, _B)
tl_type = _z3.RecFunction("tl_type", _SQ, _S, _I, _S)
_t, _s, _i = _z3.Const("tl_t", _SQ), _z3.Const("tl_s", _S), _z3.Int("tl_i")
_DASH = _z3.StringVal("-")
from pyvc.sorts import rec_define
rec_define(tl_mark, [_t, _i], _z3.If(_i <= 0, False, _z3.If(tl_mark(_t, _i - 1), False, _t[_i - 1] == _DASH)))
rec_define(tl_pend, [_t, _s, _i], _z3.If(_i <= 0, False, _z3.If(tl_mark(_t, _i - 1), False,
                     _z3.If(_t[_i - 1] == _DASH, tl_pend(_t, _s, _i - 1), _z3.Or(tl_pend(_t, _s, _i - 1), _t[_i - 1] == _s)))))
rec_define(tl_has, [_t, _s, _i], _z3.If(_i <= 0, False, _z3.If(tl_mark(_t, _i - 1), _z3.Or(tl_has(_t, _s, _i - 1), tl_pend(_t, _s, _i - 1)),
                                                                         tl_has(_t, _s, _i - 1))))
rec_define(tl_type, [_t, _s, _i], _z3.If(_i <= 0, _z3.StringVal(""), _z3.If(_z3.And(tl_mark(_t, _i - 1), tl_pend(_t, _s, _i - 1)), _t[_i - 1],
                                                                                  tl_type(_t, _s, _i - 1))))
TL_HOOKS = {
    "tl_mark": lambda interp, st, a: _Val(tl_mark(a[0].t, a[1].t), "bool"),
    "tl_pend": lambda interp, st, a: _Val(tl_pend(a[0].t, a[1].t, a[2].t), "bool"),
    "tl_has": lambda interp, st, a: _Val(tl_has(a[0].t, a[1].t, a[2].t), "bool"),
    "tl_type": lambda interp, st, a: _Val(tl_type(a[0].t, a[1].t, a[2].t), "str"),
}
_N = "len(constants_ast)"
_BADTYPE = f"exists_int(lambda j: tl_mark(constants_ast, j) and constants_ast[j] not in domain_types, 0, {_N})"
CONTRACTS["lisp_parsers.domain_parser:DomainParser.parse_constants"] = dict(
    prop="C06", shards=6,
    params={"self": ("ref", "DomainParser"), "constants_ast": ("seq", "str"), "domain_types": ("ref", "dict_PDDLType")},
    locals={"constants": ("ref", "dict_PDDLObject"), "same_type_constants": ("seq", "str")},
    returns=("ref", "dict_PDDLObject"), dictcomp_duplicates=True,
    requires=["allocated(self)", "allocated(domain_types)"],
    ensures=[
        "fresh(result)",
        # exactly the declared names ...
        f"forall_str(lambda s: (s in result) == (tl_has(constants_ast, s, {_N}) or tl_pend(constants_ast, s, {_N})))",
        # ... each a new constant object carrying its name and the type object registered under the declared type name
        f"forall_str(lambda s: implies(s in result, fresh(result[s]) and result[s].name == s and result[s].type == "
        f"domain_types[('object' if tl_pend(constants_ast, s, {_N}) else tl_type(constants_ast, s, {_N}))]))"],
    raises={"SyntaxError": _BADTYPE, "KeyError": "'object' not in domain_types"},
    must_raise=[_BADTYPE],
    modifies=[],
    loops={0: dict(invariants=[
        "fresh(constants)",
        "type_marker_reached == tl_mark(constants_ast, _i)",
        "forall_str(lambda s: (s in same_type_constants) == tl_pend(constants_ast, s, _i))",
        "forall_str(lambda s: (s in constants) == tl_has(constants_ast, s, _i))",
        "forall_str(lambda s: implies(s in constants, fresh(constants[s]) and constants[s].name == s and constants[s].type == domain_types[tl_type(constants_ast, s, _i)]))",
        "forall_int(lambda j: implies(tl_mark(constants_ast, j), constants_ast[j] in domain_types), 0, _i)"],
        modifies=["dict_PDDLObject.keys[constants]", "dict_PDDLObject.map[constants]", "PDDLObject.name", "PDDLObject.type"])},
    spec_hooks=TL_HOOKS)

# ---- deductive: parse_types — the parent links follow the declarations, in any order of declaration ------------------------------------
# Same typed-list fold as above: tl_has(t, s, n) = s is a declared child, tl_type(t, s, n) = the name of its declared parent,
# tl_pend(t, s, n) = s is listed without a parent (child of object).  After the pass every declared child points to the type object
# REGISTERED under its parent's name (also when the parent is declared later or never appears on a left-hand side).
_TN = "len(types)"
_OBJ = "ObjectType"


def _h_linked(interp, st, a):
    """linked(v, d): v's parent is the default object type (by name), or it is the object registered in d under the parent's name"""
    v, d = a
    par = interp.read_field(st, v, "PDDLType", "parent")
    pname = interp.read_field(st, _Val(par.t, ("ref", "PDDLType")), "PDDLType", "name")
    ks = interp.read_field(st, d, "dict_PDDLType", "keys")
    mp = interp.read_field(st, d, "dict_PDDLType", "map")
    return _Val(_z3.Or(par.t == 0, pname.t == _z3.StringVal("object"),
                       _z3.And(_z3.Contains(ks.t, _z3.Unit(pname.t)), _z3.Select(mp.t, pname.t) == par.t)), "bool")


def _h_rooted(interp, st, a):
    """rooted(p, d): p is the default object type, or a child of it, or its name is registered in d (so that relinking finds a parent for it)"""
    p, d = a
    g = _z3.Const("G_ObjectType", _I)
    par = interp.read_field(st, _Val(p.t, ("ref", "PDDLType")), "PDDLType", "parent")
    nm = interp.read_field(st, _Val(p.t, ("ref", "PDDLType")), "PDDLType", "name")
    ks = interp.read_field(st, d, "dict_PDDLType", "keys")
    return _Val(_z3.Or(p.t == g, par.t == g, _z3.Contains(ks.t, _z3.Unit(nm.t))), "bool")


PT_HOOKS = dict(TL_HOOKS, linked=_h_linked, rooted=_h_rooted,
                lower=lambda interp, st, a: _Val(_z3.Function("str_lower", _S, _S)(a[0].t), "str"))
_DECL = f"(tl_has(types, s, {_TN}) or tl_pend(types, s, {_TN}))"
# (a name listed again without a parent at the end of the list is re-registered as a child of object: the later declaration wins)
_PARENT_NAME = (f"(implies(not tl_pend(types, s, {_TN}), {{v}}.parent != None and {{v}}.parent.name == tl_type(types, s, {_TN})) and "
                f"implies(tl_pend(types, s, {_TN}), {{v}}.parent is {_OBJ}))")
# (A first formulation of the relink-loop invariants in terms of the current state only stayed `unknown`; the one below states what was
#  true when the relink loop was entered — `at_loop_entry(...)` — and three facts about how the loop changes that: the dictionary only
#  grows, parents are replaced only by objects of the same name, visited snapshot objects are linked.)
CONTRACTS["lisp_parsers.domain_parser:DomainParser.parse_types"] = dict(
    prop="C06", shards=8,
    params={"self": ("ref", "DomainParser"), "types": ("seq", "str")},
    locals={"pddl_types": ("ref", "dict_PDDLType"), "same_types_objects": ("seq", "str"), "parent_type": ("ref", "PDDLType")},
    returns=("ref", "dict_PDDLType"), dictcomp_duplicates=True,
    globals={"ObjectType": ("ref", "PDDLType", "G_ObjectType")},
    requires=["allocated(self)", f"{_OBJ}.name == 'object'",
              # the token list comes from the tokenizer: lower case
              "forall_int(lambda j: lower(types[j]) == types[j], 0, len(types))"],
    ensures=[
        "fresh(result)", f"'object' in result and result['object'] is {_OBJ}",
        # every declared name is registered, under its own name
        f"forall_str(lambda s: implies({_DECL} and s != 'object', s in result and fresh(result[s]) and result[s].name == s))",
        # ... its parent carries the declared parent's name (the default type for names listed without a parent)
        f"forall_str(lambda s: implies({_DECL} and s != 'object', " + _PARENT_NAME.format(v="result[s]") + "))",
        # ... and IS the object registered under that name: the registered objects form the declared tree
        f"forall_str(lambda s: implies({_DECL} and s != 'object', linked(result[s], result)))",
        # every registered object is registered under its own name
        "forall_str(lambda s: implies(s in result, result[s].name == s))",
        # a type that only occurs as a parent (never declared itself) is registered as a child of the default object type
        f"forall_str(lambda s: implies(s in result and not {_DECL} and s != 'object', result[s].parent is {_OBJ}))",
        # the module-level default type is not written
        f"{_OBJ}.name == old({_OBJ}.name)", f"{_OBJ}.parent is old({_OBJ}.parent)"],
    raises={"IndexError": f"tl_mark(types, {_TN})"},
    modifies=[],
    loops={
        0: dict(invariants=[
            "fresh(pddl_types)", f"0 <= index and index <= {_TN}", "not tl_mark(types, index)",
            "forall_str(lambda s: (s in same_types_objects) == tl_pend(types, s, index))",
            "forall_str(lambda s: implies(s in same_types_objects, lower(s) == s))",
            "forall_str(lambda s: (s in pddl_types) == tl_has(types, s, index))",
            "forall_str(lambda s: implies(s in pddl_types, fresh(pddl_types[s]) and pddl_types[s].name == s and pddl_types[s].parent != None and "
            "fresh(pddl_types[s].parent) and pddl_types[s].parent.name == tl_type(types, s, index)))",
            "forall_str(lambda s: implies(s in pddl_types, rooted(pddl_types[s].parent, pddl_types)))",
            f"{_OBJ}.name == old({_OBJ}.name)", f"{_OBJ}.parent is old({_OBJ}.parent)"],
            modifies=["dict_PDDLType.keys[pddl_types]", "dict_PDDLType.map[pddl_types]", "PDDLType.name", "PDDLType.parent"]),
        1: dict(invariants=[
            "fresh(pddl_types)",
            # facts about the dictionary as it was when the relink loop was entered (they do not mention the current state):
            # every declared name is registered there, under its own name, with a parent of the declared name; every entry is in the snapshot
            f"forall_str(lambda s: implies({_DECL}, at_loop_entry(s in pddl_types and fresh(pddl_types[s]) and pddl_types[s].name == s and " + _PARENT_NAME.format(v="pddl_types[s]") + ")))",
            "forall_str(lambda s: implies(at_loop_entry(s in pddl_types), exists_int(lambda j: _seq[j] is at_loop_entry(pddl_types[s]), 0, len(_seq))))",
            "forall_int(lambda j: at_loop_entry(fresh(_seq[j])), 0, len(_seq))",
            f"forall_str(lambda s: implies(at_loop_entry(s in pddl_types), {_DECL} and at_loop_entry(rooted(pddl_types[s].parent, pddl_types))))",
            # the dictionary only grows: entries present at loop entry stay what they were
            "forall_str(lambda s: implies(at_loop_entry(s in pddl_types), s in pddl_types and pddl_types[s] is at_loop_entry(pddl_types[s])))",
            # registered objects carry the name they are registered under
            "forall_str(lambda s: implies(s in pddl_types, pddl_types[s].name == s and pddl_types[s] != None))",
            # relinking replaces a parent only by an object of the same name
            "forall_ref(lambda x: (x.parent == None) == at_loop_entry(x.parent == None) and implies(x.parent != None, x.parent.name == at_loop_entry(x.parent.name)) "
            "and implies(at_loop_entry(x.parent != None and x.parent.name == 'object'), x.parent is at_loop_entry(x.parent)), 'PDDLType')",
            # a parent is what it was at loop entry unless it has been relinked to the object registered under its name
            "forall_ref(lambda x: x.parent is at_loop_entry(x.parent) or (x.parent != None and x.parent.name in pddl_types and pddl_types[x.parent.name] is x.parent), 'PDDLType')",
            # what the relink loop registers in addition are children of the default object type
            f"forall_str(lambda s: implies(s in pddl_types and not at_loop_entry(s in pddl_types), pddl_types[s].parent is {_OBJ}))",
            # the snapshot objects visited so far are linked
            "forall_int(lambda j: linked(_seq[j], pddl_types), 0, _i)",
            f"{_OBJ}.name == old({_OBJ}.name)", f"{_OBJ}.parent is old({_OBJ}.parent)"],
            modifies=["dict_PDDLType.keys[pddl_types]", "dict_PDDLType.map[pddl_types]", "PDDLType.parent"])},
    spec_hooks=PT_HOOKS)
