"""C10 — a serialized trajectory parses back to the same states and actions (bounded round trips, single-agent and joint)."""
import itertools
import os
import random
from pyvc.bounded import Harness, Failure
from spec import pddl_sem as PS, semantics as SEM, gen as G, repo_api as RA, sexp as SX, views as V
from contracts.c04 import scenario, spec_run

CONTRACTS = {}
LEVEL = "other"
EXPLANATION = ("bounded stand-in: trajectories produced by the exporters from every plan of length <= 3 of the scenario domain (and joint "
               "plans with nop entries) are written, parsed back with and without the problem's object table, and compared component by "
               "component with the exporter's triplets (action calls, fact sets, fluent argument lists and values, chaining, one component per action).")
TRUSTED = ["spec/views.py:v_state", "scenario domain of spec/gen.py (fluent d with repeated arguments, zero-arity atom g, negative/fractional values via init variants)"]
ASSUMPTIONS = ["bounded: plan length <= 3; 2 objects; 3 initial-state variants"]

INIT_VARIANTS = [(), ("(g)", "(q o2)"), ("(r o1 o1)", "(= (d o1 o1) -2.5)", "(= (f o2) 0.125)"), ("(= (f o2) -0.123456)", "(= (d o1 o2) 1234567.25)")]
STRIPS_DOMAIN = """(define (domain st) (:requirements :typing :negative-preconditions) (:types a - object)
(:predicates (p ?x - a) (q ?x - a))
(:action del :parameters (?x - a) :precondition (and (p ?x)) :effect (and (not (p ?x))))
(:action add :parameters (?x - a) :precondition (and (not (p ?x))) :effect (and (p ?x)))
(:action delq :parameters (?x - a) :precondition (and (q ?x)) :effect (and (not (q ?x)))))"""
STRIPS_PROBLEM = "(define (problem sp) (:domain st) (:objects o1 o2 - a) (:init (p o1) (q o2)) (:goal (and (p o2))))"


def _parse_traj(dom, prob, text, agents=None):
    from pddl_plus_parser.lisp_parsers import TrajectoryParser
    p = RA.write_tmp(text, ".trajectory")
    try:
        return TrajectoryParser(dom, prob).parse_trajectory(p, executing_agents=agents)
    finally:
        os.unlink(p)


class TrajectoryRoundTrip(Harness):
    name = "c10-roundtrip"
    prop = "C10"
    shards = 8
    functions = ("TrajectoryExporter.export", "State.serialize", "TrajectoryParser.parse_trajectory", "TrajectoryParser.parse_state",
                 "TrajectoryParser.parse_grounded_numeric_fluent", "TrajectoryParser.parse_grounded_predicate", "TrajectoryParser.parse_action_call",
                 "TrajectoryParser.deduce_problem_objects", "Operator.__str__")
    bound = {"quick": "150 sampled plans (length 1..3) x 3 initial-state variants x {with problem objects, objects deduced from the first state}", "thorough": "all 1,463 plans"}
    rule = "plan x init variant x object source; non-trivial = >= 2 steps; distinct by input"

    def inputs(self, tier, seed):
        rnd = random.Random(seed)
        for plan in G.plans(3, rnd, cap=150 if tier == "quick" else None):
            if not plan:
                continue
            for v in range(len(INIT_VARIANTS)):
                for with_problem in (True, False):
                    yield {"plan": [[n, list(a)] for n, a in plan], "variant": v, "with_problem": with_problem}

    def nontrivial_key(self, inp):
        return str(inp) if len(inp["plan"]) >= 2 else None

    def check(self, inp):
        from pddl_plus_parser.exporters.numeric_trajectory_exporter import TrajectoryExporter
        self.cases += 1
        dom = RA.parse_domain_text(G.scenario_domain_text())
        prob = RA.parse_problem_text(G.scenario_problem_text(INIT_VARIANTS[inp["variant"]]), dom)
        plan = [(n, tuple(a)) for n, a in inp["plan"]]
        ex = TrajectoryExporter(dom, allow_invalid_actions=True)
        tr = ex.parse_plan(prob, None, [G.call_text(c) for c in plan])
        text = "".join(TrajectoryExporter.export(tr))
        r = RA.outcome(_parse_traj, dom, prob if inp["with_problem"] else None, text)
        if r[0] != "ok":
            return [Failure(clause="the exporter's output is accepted by the trajectory parser", expected="observation", observed=(r, text[:300]))]
        obs = r[1]
        out = []
        if len(obs.components) != len(tr):
            return [Failure(clause="one component per action", expected=len(tr), observed=len(obs.components))]
        for k, (c, t) in enumerate(zip(obs.components, tr)):
            call = c.grounded_action_call
            if [call.name] + list(call.parameters) != [plan[k][0]] + list(plan[k][1]):
                out.append(Failure(clause="parsed action call k == exported action k (name and arguments in order)", expected=plan[k], observed=str(call)))
            for which, ps, es in (("pre", c.previous_state, t.previous_state), ("post", c.next_state, t.next_state)):
                if not SEM.states_equal(V.v_state(ps), V.v_state(es)):
                    out.append(Failure(clause=f"parsed {which}-state k == exported {which}-state k (facts; fluents with argument lists and values)",
                                       expected=str(V.v_state(es)), observed=str(V.v_state(ps)), input={**inp, "step": k}))
                elif not (ps == es):
                    out.append(Failure(clause=f"parsed {which}-state k == exported state under State.__eq__", expected=True, observed=False, input={**inp, "step": k}))
            if k > 0 and not (c.previous_state == obs.components[k - 1].next_state):
                out.append(Failure(clause="parsed observation is a chain", expected="pre k == post k-1", observed="different", input={**inp, "step": k}))
            if out:
                break
        if not inp["with_problem"]:
            # objects deduced from the first state: every object that occurs in it, typed by the declaration
            seen = set()
            facts, fl = V.v_state(tr[0].previous_state)
            for _, a in facts:
                seen.update(a)
            for (_, a) in fl:
                seen.update(a)
            if set(obs.grounded_objects) != seen:
                out.append(Failure(clause="deduced objects == objects occurring in the first state", expected=sorted(seen), observed=sorted(obs.grounded_objects)))
        return out[:3]


class JointRoundTrip(Harness):
    name = "c10-joint"
    prop = "C10"
    shards = 4
    functions = ("MultiAgentTrajectoryExporter.export", "TrajectoryParser.parse_joint_action", "TrajectoryParser.parse_trajectory", "NOPOperator.__str__")
    bound = {"quick": "joint plans of length 1..2 over 2 agent slots, each slot a scenario call or nop (150 sampled)", "thorough": "all"}
    rule = "joint plan; non-trivial = some step has two non-nop members or a nop; distinct by input"

    def inputs(self, tier, seed):
        rnd = random.Random(seed)
        calls = [None] + G.scenario_calls()
        steps = [s for s in itertools.product(calls, repeat=2) if any(s)]
        plans = [(s,) for s in steps] + list(itertools.product(steps, repeat=2))
        if tier == "quick":
            plans = rnd.sample(plans, 150)
        for p in plans:
            yield {"plan": [[None if c is None else [c[0], list(c[1])] for c in step] for step in p]}

    def check(self, inp):
        from pddl_plus_parser.multi_agent.multi_agent_trajectory_exporter import MultiAgentTrajectoryExporter
        self.cases += 1
        dom = RA.parse_domain_text(G.scenario_domain_text())
        prob = RA.parse_problem_text(G.scenario_problem_text(), dom)
        lines = []
        for step in inp["plan"]:
            lines.append("[" + ",".join("(nop )" if c is None else G.call_text((c[0], tuple(c[1]))) for c in step) + "]")
        ex = MultiAgentTrajectoryExporter(dom, allow_invalid_actions=True)
        r0 = RA.outcome(ex.parse_plan, prob, None, lines, True)
        if r0[0] != "ok":
            return []          # refusal / interference semantics belong to C16
        tr = r0[1]
        text = "".join(MultiAgentTrajectoryExporter.export(tr))
        r = RA.outcome(_parse_traj, dom, prob, text, ["agent0", "agent1"])
        if r[0] != "ok":
            return [Failure(clause="the joint exporter's output is accepted by the trajectory parser", expected="observation", observed=(r, text[:300]))]
        obs = r[1]
        out = []
        if len(obs.components) != len(tr):
            return [Failure(clause="one component per joint action", expected=len(tr), observed=len(obs.components))]
        for k, (c, t) in enumerate(zip(obs.components, tr)):
            got = [[a.name] + list(a.parameters) for a in c.grounded_joint_action.actions]
            want = [["nop"] if m is None else [m[0]] + list(m[1]) for m in inp["plan"][k]]
            if got != want:
                out.append(Failure(clause="parsed joint action k == exported joint action k, nop entries in place", expected=want, observed=got))
            for which, ps, es in (("pre", c.previous_state, t.previous_state), ("post", c.next_state, t.next_state)):
                if not SEM.states_equal(V.v_state(ps), V.v_state(es)):
                    out.append(Failure(clause=f"parsed {which}-state k == exported {which}-state k", expected=str(V.v_state(es)), observed=str(V.v_state(ps))))
            if k > 0 and not (c.previous_state == obs.components[k - 1].next_state):
                out.append(Failure(clause="parsed joint observation is a chain", expected="pre k == post k-1", observed="different"))
        return out[:3]


class EmptyStates(Harness):
    """trajectories of a fluent-free domain in which intermediate states are completely empty"""
    name = "c10-empty"
    prop = "C10"
    functions = ("TrajectoryParser.parse_trajectory", "TrajectoryParser.parse_state", "TrajectoryExporter.export", "State.serialize")
    bound = {"quick": "all plans of length <= 4 over {del, add, delq} x {o1, o2} of a STRIPS domain (facts only), applicable steps only", "thorough": "length <= 5"}
    rule = "plan; non-trivial = some state of the trajectory is empty; distinct by plan"

    def inputs(self, tier, seed):
        calls = [(n, (o,)) for n in ("del", "add", "delq") for o in ("o1", "o2")]
        for n in range(1, (4 if tier == "quick" else 5) + 1):
            for plan in itertools.product(calls, repeat=n):
                yield {"plan": [[c[0], list(c[1])] for c in plan]}

    def nontrivial_key(self, inp):
        return str(inp["plan"]) if sum(1 for c in inp["plan"] if c[0] in ("del", "delq")) >= 2 else None

    def check(self, inp):
        from pddl_plus_parser.exporters.numeric_trajectory_exporter import TrajectoryExporter
        dom = RA.parse_domain_text(STRIPS_DOMAIN)
        prob = RA.parse_problem_text(STRIPS_PROBLEM, dom)
        plan = [(n, tuple(a)) for n, a in inp["plan"]]
        ex = TrajectoryExporter(dom, allow_invalid_actions=False)
        tr = ex.parse_plan(prob, None, [G.call_text(c) for c in plan])
        self.cases += 1
        text = "".join(TrajectoryExporter.export(tr))
        r = RA.outcome(_parse_traj, dom, prob, text)
        if r[0] != "ok":
            return [Failure(clause="the exporter's output is accepted by the trajectory parser", expected="observation", observed=(r, text[:300]))]
        out = []
        if len(r[1].components) != len(tr):
            return [Failure(clause="one component per action", expected=len(tr), observed=len(r[1].components))]
        for k, (c, t) in enumerate(zip(r[1].components, tr)):
            for which, ps, es in (("pre", c.previous_state, t.previous_state), ("post", c.next_state, t.next_state)):
                if V.v_state(ps) != V.v_state(es):
                    out.append(Failure(clause=f"parsed {which}-state k == exported {which}-state k (also when the state is empty)",
                                       expected=str(V.v_state(es)), observed=str(V.v_state(ps)), input={**inp, "step": k}))
        return out[:2]


HARNESSES = [TrajectoryRoundTrip(), JointRoundTrip(), EmptyStates()]

# ---- deductive contract: parse_trajectory builds a chain, one component per (action, state) pair of the file ------------------------------
# Relative to assumed contracts of the component parsers (parse_state / parse_action_call / parse_joint_action; bounded above) and of the
# reader (C11): `state_src(s)` / `call_src(c)` / `joint_src(l)` name the expression an object was parsed from.  State.copy is the contract
# proved under C14; its value relation `same_content` is used abstractly here.
import z3 as _z3
from pyvc.core import Val as _Val
from pyvc.sorts import I as _I, SExp as _SExp, SList as _SList
from contracts.c14 import CONTRACTS as _C14_CONTRACTS, STATE_WF as _STATE_WF, HOOKS_OPAQUE as _C14_OPAQUE
_state_src = _z3.Function("state_src", _I, _SList)
_call_src = _z3.Function("call_src", _I, _SList)
_joint_src = _z3.Function("joint_src", _I, _SList)
_tok_src = _z3.Function("tokenizer_source", _I, _I)
_file_sexp = _z3.Function("file_sexp", _I, _SExp)
_C10_HOOKS = dict(
    _C14_OPAQUE,
    state_src=lambda interp, st, a: _Val(_state_src(a[0].t), "slist"),
    call_src=lambda interp, st, a: _Val(_call_src(a[0].t), "slist"),
    joint_src=lambda interp, st, a: _Val(_joint_src(a[0].t), "slist"),
    tokenizer_source=lambda interp, st, a: _Val(_tok_src(a[0].t), ("ref", "Path")),
    file_sexp=lambda interp, st, a: _Val(_file_sexp(a[0].t), "sexp"),
    is_list=lambda interp, st, a: _Val(_SExp.is_Lst(a[0].t), "bool"),
    items=lambda interp, st, a: _Val(_SExp.items(a[0].t), "slist"),
    head_is=lambda interp, st, a: _Val(_z3.And(_SExp.is_Lst(a[0].t), _z3.Not(_SList.is_Nil(_SExp.items(a[0].t))),
                                               interp.fn("sfirst")(_SExp.items(a[0].t)) == _SExp.Atom(a[1].t)), "bool"),
)
_TP = "lisp_parsers.trajectory_parser:TrajectoryParser."
_TPR = ("ref", "TrajectoryParser")
_ANY = {"SyntaxError": "True", "ValueError": "True", "KeyError": "True", "IndexError": "True", "AssertionError": "True", "AttributeError": "True",
        "TypeError": "True"}
_E = "items(file_sexp(trajectory_file_path))"
_NSTEPS = f"(slen({_E}) - 1 + 1) // 2"


def _comp_ok_text(joint):
    act = "c.grounded_joint_action.actions" if joint else "c.grounded_action_call"
    return [
        "fresh(c) and fresh(c.previous_state) and fresh(c.next_state) and c.previous_state != c.next_state"
        + (" and fresh(c.grounded_joint_action)" if joint else ""),
        # the k-th component holds the state parsed from item 2k+2 and the action parsed from item 2k+1
        f"state_src(c.next_state) == srest(items(snth({_E}, 2 * k + 2)))",
        # (that items with other labels are rejected is not part of C10 and therefore not claimed here)
        f"implies(head_is(snth({_E}, 2 * k + 1), 'operator:'), call_src({act}) == srest(items(snth({_E}, 2 * k + 1))))",
        f"implies(not head_is(snth({_E}, 2 * k + 1), 'operator:'), joint_src({act}) == srest(items(snth({_E}, 2 * k + 1))))",
    ]


def _mk_comp_ok(joint):
    cls = "MultiAgentComponent" if joint else "ObservedComponent"

    def hook(interp, st, a):
        env = {"c": _Val(a[0].t, ("ref", cls)), "k": a[1], "trajectory_file_path": a[2]}
        return _Val(_z3.And(*[interp.truthy(interp.eval_spec(t, st, st.ghost.get("__old__"), env)) for t in _comp_ok_text(joint)]), "bool")
    return hook


def _traj_contract(joint):
    comp_cls = "MultiAgentComponent" if joint else "ObservedComponent"
    obs_cls = "MultiAgentObservation" if joint else "Observation"
    C = "seq(result.components)"
    LC = "seq(observation.components)"
    hooks = dict(_C10_HOOKS, comp_ok=_mk_comp_ok(joint))

    def chain(c, n):
        # facts about the first n components of the component sequence c
        return [
            # comp_ok(c, k): see _comp_ok_text — a new object holding new state objects; its action / post-state are the ones parsed from items 2k+1 / 2k+2
            f"forall_int(lambda k: comp_ok({c}[k], k, trajectory_file_path), 0, {n})",
            # the first pre-state is the parsed initial state; every later pre-state is a separate copy of the preceding post-state
            f"implies({n} > 0, state_src({c}[0].previous_state) == srest(items(sfirst({_E}))))",
            # (that the copy is a separate object is what State.copy's contract says, C14; C10 only asks for equal content)
            f"forall_int(lambda k: same_content({c}[k].previous_state, {c}[k - 1].next_state), 1, {n})",
        ]
    return dict(
        prop="C10", shards=4,
        params={"self": _TPR, "trajectory_file_path": ("ref", "Path"), "executing_agents": ("ref", "list_str"), "strict_trajectory_validation": "bool"},
        optional=("executing_agents",), locals={"observation": ("ref", obs_cls), "previous_state": ("ref", "State"), "next_state": ("ref", "State")},
        returns=("ref", obs_cls), opaque_funcs=("snth", "slen", "sfirst", "srest"),
        axioms=[f"slen({_E}) >= 0"],      # a length (the only property of the hidden list functions the proof uses)
        requires=["allocated(self)", "allocated(trajectory_file_path)", "is_list(file_sexp(trajectory_file_path))",
                  # (in non-strict mode the first item is not inspected; the contract covers files whose first item is a parenthesised list)
                  f"slen({_E}) > 0", f"is_list(sfirst({_E}))",
                  "executing_agents is not None" if joint else "executing_agents is None"],
        ensures=["fresh(result)", "fresh(result.components)",
                 # one component per (action, state) pair
                 f"len({C}) * 2 + 1 == slen({_E})"] + chain(C, f"len({C})"),
        raises=dict(_ANY), modifies=[],
        calls={"self._read_trajectory_file": _TP + "_read_trajectory_file", "PDDLTokenizer.parse": "lisp_parsers.pddl_tokenizer:PDDLTokenizer.parse@summary",
               "self.parse_state": _TP + "parse_state", "self.parse_action_call": _TP + "parse_action_call",
               "self.parse_joint_action": _TP + "parse_joint_action", "self.deduce_problem_objects": _TP + "deduce_problem_objects",
               "State.copy": "models.pddl_state:State.copy"},
        loops={0: dict(invariants=["fresh(observation)", "fresh(observation.components)", f"len({LC}) == _i",
                                   f"2 * _i + 1 <= slen({_E})",
                                   f"implies(_i == 0, state_src(previous_state) == srest(items(sfirst({_E}))) and fresh(previous_state))",
                                   f"implies(_i > 0, same_content(previous_state, {LC}[_i - 1].next_state) and fresh(previous_state))",
                                   ] + chain(LC, "_i"),
                       modifies=[f"{comp_cls}.previous_state", f"{comp_cls}.next_state",
                                 f"{comp_cls}.grounded_{'joint_action' if joint else 'action_call'}", f"list_{comp_cls}.items"]
                       + (["JointActionCall.actions"] if joint else []))},
        spec_hooks=hooks)


def _h_state_wf(interp, st, a):
    return _Val(_z3.And(*[interp.truthy(interp.eval_spec(c, st, st.ghost.get("__old__"), {"self": a[0]})) for c in _STATE_WF]), "bool")


_C10_HOOKS["state_wf"] = _h_state_wf
CONTRACTS[_TP + "_read_trajectory_file"] = dict(
    prop="C10", assumed=True, params={"self": _TPR, "trajectory_file_path": ("ref", "Path")}, returns=("ref", "PDDLTokenizer"),
    ensures=["fresh(result)", "tokenizer_source(result) == trajectory_file_path"], raises={}, modifies=[], spec_hooks=_C10_HOOKS)
CONTRACTS["lisp_parsers.pddl_tokenizer:PDDLTokenizer.parse@summary"] = dict(
    prop="C11", assumed=True, params={"self": ("ref", "PDDLTokenizer")}, returns="sexp", allocates=False,
    ensures=["result == file_sexp(tokenizer_source(self))"], raises={"SyntaxError": "True", "IndexError": "True"}, modifies=[], spec_hooks=_C10_HOOKS)
CONTRACTS[_TP + "parse_state"] = dict(
    prop="C10", assumed=True, params={"self": _TPR, "state_data": "slist"}, returns=("ref", "State"),
    ensures=["fresh(result)", "state_src(result) == state_data", "state_wf(result)"], raises=dict(_ANY), modifies=[], spec_hooks=_C10_HOOKS)
CONTRACTS[_TP + "parse_action_call"] = dict(
    prop="C10", assumed=True, params={"self": _TPR, "action_call_ast": "slist"}, returns=("ref", "ActionCall"),
    ensures=["fresh(result)", "call_src(result) == action_call_ast"], raises=dict(_ANY), modifies=[], spec_hooks=_C10_HOOKS)
CONTRACTS[_TP + "parse_joint_action"] = dict(
    prop="C10", assumed=True, params={"self": _TPR, "joint_action_call_ast": "slist", "executing_agents": ("ref", "list_str")}, optional=("executing_agents",),
    returns=("ref", "list_ActionCall"),
    ensures=["fresh(result)", "joint_src(result) == joint_action_call_ast"], raises=dict(_ANY), modifies=[], spec_hooks=_C10_HOOKS)
CONTRACTS[_TP + "deduce_problem_objects"] = dict(
    prop="C10", assumed=True, params={"self": _TPR, "initial_state_expression": "slist"}, returns=("ref", "dict_PDDLObject"),
    ensures=["fresh(result)"], raises=dict(_ANY), modifies=[], spec_hooks=_C10_HOOKS)
# the contract proved under C14, restricted to the postconditions this caller uses (dropping postconditions of a callee is sound)
CONTRACTS["models.pddl_state:State.copy"] = dict(_C14_CONTRACTS["models.pddl_state:State.copy"], prop="C14", spec_hooks=_C10_HOOKS,
                                                 ensures=["fresh(result)", "result != self", "same_content(result, self)"])
CONTRACTS[_TP + "parse_trajectory@single"] = _traj_contract(False)
CONTRACTS[_TP + "parse_trajectory@joint"] = _traj_contract(True)
