"""C20 — grounding is substitution of the call's arguments for the parameters (bounded)."""
import itertools
from pyvc.bounded import Harness, Failure
from spec import pddl_sem as PS, gen as G, repo_api as RA, sexp as SX, views as V
from contracts.c18 import rename

LEVEL = "other"
EXPLANATION = ("bounded stand-in: for generated actions (parameters ?x - a, ?y - b so that literals are used at subtypes of their declared types) "
               "and every type-correct argument tuple incl. repeated objects and the constant k, the grounded precondition tree, the grounded "
               "add/delete literals and numeric expressions of every effect group equal the lifted ones under positional substitution; typed "
               "grounded literals carry the action's parameter types (constants their own).")
TRUSTED = ["spec substitution = contracts/c18.py:rename applied with the call's binding", "quantified sub-formulas are grounded lazily per object by the library and are compared only at evaluation time (C02)"]
ASSUMPTIONS = ["bounded: bodies of spec/gen.py, 2 objects + constant"]


def _strip_forall(v):
    """forall sub-formulas are kept lifted in the grounded tree: compare them by quantifier only"""
    if isinstance(v, tuple) and v:
        if v[0] == "forall":
            return ("forall", v[1], v[2], ("and", ()))
        if v[0] in ("and", "or"):
            return (v[0], tuple(_strip_forall(k) for k in v[1]))
    return v


class Grounding(Harness):
    name = "c20-ground"
    prop = "C20"
    shards = 8
    functions = ("Operator.ground", "Operator._ground_conditional_effects", "GroundedPrecondition.ground_preconditions", "GroundedPrecondition._ground",
                 "GroundedPrecondition._ground_equality_objects", "GroundedEffect.ground_conditional_effect", "ground_predicate",
                 "fix_grounded_predicate_types", "_iterate_calc_tree_and_ground", "ground_numeric_calculation_tree", "ground_numeric_expressions",
                 "Operator.typed_action_call")
    bound = {"quick": "formulas(1) + constant formulas as precondition, effect_bodies(1) as effect; argument tuples (?x - a, ?y - b): (o1,o2), (o2,o2), (k,o2)", "thorough": "formulas(2)/effect_bodies(2)"}
    rule = "(body, argument tuple); non-trivial = body with >= 2 literals; distinct by input"

    def inputs(self, tier, seed):
        lvl = 1 if tier == "quick" else 2
        for f in G.formulas(lvl) + G.const_formulas():
            yield {"pre": f, "eff": "(and (p ?y) (not (r ?x ?y)) (increase (d ?x ?y) (f ?y)))"}
        for e in G.effect_bodies(lvl):
            yield {"pre": "(and (p ?y) (not (= ?x ?y)))", "eff": e}

    def nontrivial_key(self, inp):
        return str(inp)

    def check(self, inp):
        from pddl_plus_parser.models import Operator, PDDLObject
        text = G.domain_text([("act", "?x - a ?y - b", inp["pre"], inp["eff"])], with_const=True)
        d = RA.outcome(RA.parse_domain_text, text)
        if d[0] != "ok":
            return []
        dom = d[1]
        act = dom.actions["act"]
        lifted = V.v_action(act)
        pobjs = {n: PDDLObject(n, dom.types[t]) for n, t in G.OBJECTS.items()}
        out = []
        for args in (["o1", "o2"], ["o2", "o2"], ["k", "o2"]):
            self.cases += 1
            sigma = {"?x": args[0], "?y": args[1]}
            op = Operator(act, dom, list(args), problem_objects=pobjs)
            r = RA.outcome(op.ground)
            info = {**inp, "args": args}
            if r[0] != "ok":
                out.append(Failure(clause="a type-correct call can be grounded", expected="grounded operator", observed=r, input=info))
                continue
            gpre = V.v_pre(op.grounded_preconditions._grounded_precondition.root)
            want = rename(lifted["pre"], sigma)
            if PS.norm(_strip_forall(gpre)) != PS.norm(_strip_forall(want)):
                out.append(Failure(clause="grounded precondition == lifted precondition with each parameter replaced by its argument (constants kept)",
                                   expected=str(PS.norm(_strip_forall(want))), observed=str(PS.norm(_strip_forall(gpre))), input=info))
            # effect groups
            got_groups = []
            for g in op.grounded_effects:
                lits = sorted(("add" if p.is_positive else "del", p.name, tuple(p.object_mapping[k] for k in p.signature)) for p in g.grounded_discrete_effects)
                nums = sorted(str(V.v_numeff(t)) for t in g.grounded_numeric_effects)
                cond = None if g.grounded_antecedents is None else PS.norm(_strip_forall(V.v_pre(g.grounded_antecedents._grounded_precondition.root)))
                got_groups.append((str(cond), str(lits), str(nums)))
            want_groups = []
            simple = [e for e in lifted["eff"] if e[0] in ("add", "del", "upd")]
            groups = [(None, simple)] + [(e[1], list(e[2])) for e in lifted["eff"] if e[0] == "when"]
            for cond, effs in groups:
                lits = sorted(rename(e, sigma) for e in effs if e[0] in ("add", "del"))
                nums = sorted(str(rename(e, sigma)) for e in effs if e[0] == "upd")
                c = None if cond is None else PS.norm(_strip_forall(rename(cond, sigma)))
                want_groups.append((str(c), str(lits), str(nums)))
            if sorted(got_groups) != sorted(want_groups):
                out.append(Failure(clause="grounded effect groups == lifted groups under the substitution; nothing added or omitted",
                                   expected=sorted(want_groups), observed=sorted(got_groups), input=info))
            # typed form: the action's parameter types (constants their own)
            ptype = {"?x": "a", "?y": "b", "k": "a", "k2": "b"}
            bad = []

            def check_typed(gp, lp_args):
                for k, larg in zip(gp.signature, lp_args):
                    if gp.signature[k].name != ptype.get(larg):
                        bad.append((gp.name, larg, gp.signature[k].name, ptype.get(larg)))
            lifted_lits = {}
            for p in act.discrete_effects:
                lifted_lits[(p.name, tuple(sigma.get(a, a) for a in p.signature), p.is_positive)] = tuple(p.signature)
            for g in op.grounded_effects:
                if g.grounded_antecedents is None:
                    for gp in g.grounded_discrete_effects:
                        key = (gp.name, tuple(gp.object_mapping[k] for k in gp.signature), gp.is_positive)
                        if key in lifted_lits:
                            check_typed(gp, lifted_lits[key])
            # precondition literals of the root conjunction
            from pddl_plus_parser.models import GroundedPredicate, Predicate
            lifted_pre = {}
            for p in act.preconditions.root.operands:
                if isinstance(p, Predicate):
                    lifted_pre[(p.name, tuple(sigma.get(a, a) for a in p.signature), p.is_positive)] = tuple(p.signature)
            for gp in op.grounded_preconditions._grounded_precondition.root.operands:
                if isinstance(gp, GroundedPredicate):
                    key = (gp.name, tuple(gp.object_mapping[k] for k in gp.signature), gp.is_positive)
                    if key in lifted_pre:
                        check_typed(gp, lifted_pre[key])
            if bad:
                out.append(Failure(clause="typed grounded literal: each argument carries its parameter's type in the action, a constant its own type",
                                   expected="action parameter types", observed=bad[:3], input=info))
            want_call = f"(act {args[0]} - {'a' if args[0] != 'o2' else 'b'} {args[1]} - b)"
            tc = RA.outcome(lambda: op.typed_action_call)
            if tc[0] != "ok" or SX.lex(tc[1]) != SX.lex(want_call):
                out.append(Failure(clause="typed action call lists the call objects with their declared types (a constant with its own type)", expected=want_call, observed=tc, input=info))
            if len(out) >= 3:
                break
        return out[:3]


HARNESSES = [Grounding()]

# ---- deductive: Operator.ground builds the positional substitution and hands the SAME map to both grounding steps ----------------
OPG = "models.pddl_operator:Operator."
GPG = "models.grounded_precondition:GroundedPrecondition."
_PM = "call_arg('GroundedPrecondition.ground_preconditions', 'parameters_map')"
CONTRACTS = {
    GPG + "ground_preconditions": dict(prop="C20", assumed=True, params={"self": ("ref", "GroundedPrecondition"), "parameters_map": ("ref", "dict_str_str")},
                                       returns="none", ensures=[], raises={"KeyError": "True"},
                                       modifies=["CompoundPrecondition.root[self._grounded_precondition]"]),
    OPG + "_ground_conditional_effects": dict(prop="C20", assumed=True, params={"self": ("ref", "Operator"), "parameters_map": ("ref", "dict_str_str")},
                                              returns=("ref", "opaque"), ensures=["fresh(result)"], raises={"KeyError": "True"}, modifies=[]),
    OPG + "ground": dict(
        prop="C20", params={"self": ("ref", "Operator")}, returns="none", locals={"parameters_map": ("ref", "dict_str_str")},
        requires=["allocated(self.action)", "allocated(self.action.signature)", "allocated(self.grounded_call_objects)", "allocated(self.action.preconditions)",
                  # representation invariant of a signature: parameter names are pairwise distinct
                  "forall_int(lambda i: forall_int(lambda j: implies(i != j, self.action.signature.keys()[i] != self.action.signature.keys()[j]), 0, "
                  "len(self.action.signature.keys())), 0, len(self.action.signature.keys()))"],
        ensures=[
            # the substitution is zip(parameters of the action, call objects), position by position
            f"forall_int(lambda i: {_PM}.keys()[i] == self.action.signature.keys()[i] and {_PM}[{_PM}.keys()[i]] == seq(self.grounded_call_objects)[i], 0, len({_PM}.keys()))",
            f"len({_PM}.keys()) == (len(self.action.signature.keys()) if len(self.action.signature.keys()) <= len(self.grounded_call_objects) else len(self.grounded_call_objects))",
            # preconditions and effects are grounded with the same map, on the operator's own action and domain
            f"{_PM} == call_arg('Operator._ground_conditional_effects', 'parameters_map')",
            "self.grounded", "fresh(self.grounded_preconditions)", "self.grounded_preconditions.action == self.action",
            "self.grounded_preconditions.domain == self.domain", "self.grounded_preconditions._lifted_precondition == self.action.preconditions",
            # the schema is not written
            "self.action == old(self.action)", "self.action.signature.keys() == old(self.action.signature.keys())"],
        raises={"KeyError": "True"},
        modifies=["Operator.grounded_preconditions[self]", "Operator.grounded_effects[self]", "Operator.grounded[self]"],
        calls={"GroundedPrecondition.ground_preconditions": GPG + "ground_preconditions", "self._ground_conditional_effects": OPG + "_ground_conditional_effects"}),
}

# ---- deductive: ground_predicate is substitution, position by position --------------------------------------------------------------
# subst(p) = p for a domain constant, parameters_map[p] otherwise.  The grounded fact keeps the parameter names of the predicate's
# declaration (so that it is found in states), maps the i-th of them to subst(i-th argument) and takes the i-th type from the constant
# / the action parameter that stands there.
GU = "models.grounding_utils:"
_DV = {"dict_str_ref": "PDDLType"}
_DISTINCT = ("forall_int(lambda i: forall_int(lambda j: implies(i != j, {d}.keys()[i] != {d}.keys()[j]), 0, len({d}.keys())), 0, len({d}.keys()))")
_DEF = "domain.predicates[predicate.name].signature"
_ARG = "predicate.signature.keys()[i]"
_SUBST = f"({_ARG} if {_ARG} in domain.constants else parameters_map[{_ARG}])"
CONTRACTS[GU + "fix_grounded_predicate_types"] = dict(
    prop="C20",
    params={"lifted_predicate_params": ("seq", "str"), "predicate_signature": ("ref", "dict_str_ref"), "domain": ("ref", "Domain"), "action": ("ref", "Action")},
    returns="none", dict_values=_DV, allocates=False,
    requires=["allocated(predicate_signature)", "allocated(domain)", "allocated(domain.constants)", "allocated(action)", "allocated(action.signature)",
              "predicate_signature != action.signature", _DISTINCT.format(d="predicate_signature")],
    ensures=[
        # same parameter names in the same order
        "predicate_signature.keys() == old(predicate_signature.keys())",
        # position i (as far as both lists reach) takes the type of the constant / action parameter standing there
        "forall_int(lambda i: predicate_signature[predicate_signature.keys()[i]] == "
        "(domain.constants[lifted_predicate_params[i]].type if lifted_predicate_params[i] in domain.constants else action.signature[lifted_predicate_params[i]]), "
        "0, len(predicate_signature.keys()) if len(predicate_signature.keys()) <= len(lifted_predicate_params) else len(lifted_predicate_params))",
        # positions beyond the argument list keep their type
        "forall_int(lambda i: predicate_signature[predicate_signature.keys()[i]] == old(predicate_signature[predicate_signature.keys()[i]]), "
        "len(lifted_predicate_params), len(predicate_signature.keys()))"],
    raises={"KeyError": "exists_int(lambda i: lifted_predicate_params[i] not in domain.constants and lifted_predicate_params[i] not in action.signature, 0, "
                        "len(predicate_signature.keys()) if len(predicate_signature.keys()) <= len(lifted_predicate_params) else len(lifted_predicate_params))"},
    must_raise=["exists_int(lambda i: lifted_predicate_params[i] not in domain.constants and lifted_predicate_params[i] not in action.signature, 0, "
                "len(predicate_signature.keys()) if len(predicate_signature.keys()) <= len(lifted_predicate_params) else len(lifted_predicate_params))"],
    modifies=["dict_str_ref.keys[predicate_signature]", "dict_str_ref.map[predicate_signature]"],
    loops={0: dict(invariants=[
        "predicate_signature.keys() == old(predicate_signature.keys())",
        "forall_int(lambda i: predicate_signature[predicate_signature.keys()[i]] == "
        "(domain.constants[lifted_predicate_params[i]].type if lifted_predicate_params[i] in domain.constants else action.signature[lifted_predicate_params[i]]), 0, _i)",
        "forall_int(lambda i: predicate_signature[predicate_signature.keys()[i]] == old(predicate_signature[predicate_signature.keys()[i]]), _i, len(predicate_signature.keys()))",
        "forall_int(lambda i: lifted_predicate_params[i] in domain.constants or lifted_predicate_params[i] in action.signature, 0, _i)"],
        modifies=["dict_str_ref.keys[predicate_signature]", "dict_str_ref.map[predicate_signature]"])})
_RAISE = (f"predicate.name not in domain.predicates or exists_int(lambda i: {_ARG} not in domain.constants and "
          f"({_ARG} not in parameters_map or {_ARG} not in action.signature), 0, len(predicate.signature.keys()))")
CONTRACTS[GU + "ground_predicate"] = dict(
    prop="C20", shards=6,
    params={"predicate": ("ref", "Predicate"), "parameters_map": ("ref", "dict_str_str"), "domain": ("ref", "Domain"), "action": ("ref", "Action")},
    locals={"predicate_object_mapping": ("ref", "dict_str_str"), "predicate_signature": ("ref", "dict_str_ref")},
    returns=("ref", "GroundedPredicate"), dict_values=_DV,
    requires=["allocated(predicate)", "allocated(predicate.signature)", "allocated(parameters_map)", "allocated(domain)", "allocated(domain.predicates)",
              "allocated(domain.constants)", "allocated(action)", "allocated(action.signature)",
              "forall_str(lambda k: implies(k in domain.predicates, allocated(domain.predicates[k]) and allocated(domain.predicates[k].signature)))",
              # representation invariants: parameter names of a declaration are pairwise distinct; a literal has the arity of its declaration
              "forall_str(lambda k: implies(k in domain.predicates, " + _DISTINCT.format(d="domain.predicates[k].signature") + "))",
              f"implies(predicate.name in domain.predicates, len({_DEF}.keys()) == len(predicate.signature.keys()))"],
    ensures=[
        "fresh(result)", "result.name == predicate.name", "result.is_positive == predicate.is_positive",
        # the grounded fact has its own signature and mapping objects, keyed by the declaration's parameter names, in order
        "fresh(result.signature)", "fresh(result.object_mapping)",
        f"len(result.signature.keys()) == len({_DEF}.keys())", f"len(result.object_mapping.keys()) == len({_DEF}.keys())",
        f"forall_int(lambda i: result.signature.keys()[i] == {_DEF}.keys()[i] and result.object_mapping.keys()[i] == {_DEF}.keys()[i], 0, len({_DEF}.keys()))",
        # substitution, position by position
        f"forall_int(lambda i: result.object_mapping[{_DEF}.keys()[i]] == {_SUBST}, 0, len({_DEF}.keys()))",
        # the type at position i is the one of the constant / action parameter standing there
        f"forall_int(lambda i: result.signature[{_DEF}.keys()[i]] == (domain.constants[{_ARG}].type if {_ARG} in domain.constants else action.signature[{_ARG}]), 0, len({_DEF}.keys()))"],
    raises={"KeyError": _RAISE}, must_raise=[_RAISE],
    modifies=[],        # nothing that existed before the call is written: not the declaration, not the schema, not the map
    calls={"fix_grounded_predicate_types": GU + "fix_grounded_predicate_types"},
    loops={0: dict(invariants=[
        "fresh(predicate_object_mapping)", "fresh(predicate_signature)", "predicate_object_mapping != predicate_signature",
        "len(predicate_object_mapping.keys()) == _i",
        f"forall_int(lambda i: predicate_object_mapping.keys()[i] == {_DEF}.keys()[i], 0, _i)",
        f"forall_int(lambda i: predicate_object_mapping[{_DEF}.keys()[i]] == {_SUBST}, 0, _i)",
        f"forall_int(lambda i: {_ARG} in domain.constants or {_ARG} in parameters_map, 0, _i)"],
        modifies=["dict_str_str.keys[predicate_object_mapping]", "dict_str_str.map[predicate_object_mapping]"])})
