"""C08 — exporting a domain and parsing it back preserves vocabulary and behaviour (bounded round trips)."""
import os
from pathlib import Path
from pyvc.bounded import Harness, Failure
from spec import pddl_sem as PS, gen as G, repo_api as RA, sexp as SX, views as V
from contracts.c01 import _norm_domain
from contracts.c09 import shipped_pairs

CONTRACTS = {}
LEVEL = "other"
EXPLANATION = ("bounded stand-in: generated domains (every generator precondition / effect body, constants, two-action domains) and every domain "
               "file shipped under /repo/tests that the parser accepts are exported, parsed back and compared by view (types, constants, "
               "predicates, functions, ordered typed parameters, precondition formula, effect list up to set order); a second round changes "
               "nothing. Behavioural equality follows from view equality through C02/C03.")
TRUSTED = ["spec/views.py:v_domain + order normalisation spec/pddl_sem.py:norm", "behavioural clause is carried by view equality + C02/C03 checks"]
ASSUMPTIONS = ["numeric constants in generated bodies are exactly printable at the exporter's precision", "bounded: spec/gen.py bodies + shipped files"]


import zlib


def _fl_value(key, k):
    h = zlib.crc32(repr((key, k)).encode())
    return ((h % 6001) - 3000) / 1000.0 + 0.37


def _nval(n, k):
    if n[0] == "num":
        return n[1]
    if n[0] == "fl":
        return _fl_value((n[1], n[2]), k)
    l, r = _nval(n[2], k), _nval(n[3], k)
    return {"+": l + r, "-": l - r, "*": l * r}[n[1]] if n[1] != "/" else l / r


def _cmp_equiv(c1, c2, tol):
    """same comparison up to algebraic rearrangement: lhs-rhs agree on 8 fixed valuations (within the print precision)"""
    flip = {"<=": ">=", ">=": "<=", "<": ">", ">": "<", "=": "="}
    for sign, op2 in ((1, c2[1]), (-1, flip.get(c2[1]))):
        if c1[1] != op2:
            continue
        ok = True
        for k in range(8):
            try:
                d1 = _nval(c1[2], k) - _nval(c1[3], k)
                d2 = sign * (_nval(c2[2], k) - _nval(c2[3], k))
            except ZeroDivisionError:
                continue
            if abs(d1 - d2) > tol * 40:
                ok = False
                break
        if ok:
            return True
    return False


def approx(a, b, tol=5e-5):
    """equality of views up to (i) set order, (ii) numeric leaves at the exporter's precision, (iii) algebraic
    rearrangement of a numeric condition (the exporter prints nested conditions through the simplifier)"""
    if isinstance(a, float) and isinstance(b, float):
        return abs(a - b) <= tol
    if isinstance(a, tuple) and isinstance(b, tuple) and a and b and a[0] == "cmp" and b[0] == "cmp":
        return a == b or _cmp_equiv(a, b, tol)
    if isinstance(a, tuple) and isinstance(b, tuple) and a and b and a[0] == b[0] and a[0] in ("and", "or") and len(a) == 2:
        xs, ys = list(a[1]), list(b[1])
        if len(xs) != len(ys):
            return False
        for x in xs:
            hit = next((i for i, y in enumerate(ys) if approx(x, y, tol)), None)
            if hit is None:
                return False
            ys.pop(hit)
        return True
    if isinstance(a, (tuple, list)) and isinstance(b, (tuple, list)):
        if a and b and a[0] == b[0] == "when":
            return approx(a[1], b[1], 0.00501) and approx(("and", a[2]), ("and", b[2]), tol)
        return len(a) == len(b) and all(approx(x, y, tol) for x, y in zip(a, b))
    return a == b


def roundtrip_domain(dom):
    from pddl_plus_parser.exporters import DomainExporter
    v0 = _norm_domain(V.v_domain(dom))
    t1 = RA.outcome(DomainExporter().extract_domain, dom)
    if t1[0] != "ok":
        return [Failure(clause="export does not raise", expected="text", observed=t1)]
    d1 = RA.outcome(RA.parse_domain_text, t1[1])
    if d1[0] != "ok":
        return [Failure(clause="exported domain is accepted by the domain parser", expected="domain", observed=(d1, t1[1][-600:]))]
    out = []

    def cmp(va, vb, label):
        res = []
        for key in ("name", "types", "constants", "predicates", "functions"):
            if va[key] != vb[key]:
                res.append(Failure(clause=f"{label}: {key} preserved", expected=str(va[key])[:400], observed=str(vb[key])[:400]))
        if set(va["actions"]) != set(vb["actions"]):
            res.append(Failure(clause=f"{label}: action names preserved", expected=sorted(va["actions"]), observed=sorted(vb["actions"])))
        for n in va["actions"]:
            if n in vb["actions"]:
                for part in ("params", "pre", "eff"):
                    tol = 0.00501 if part == "pre" else 5.01e-5     # conditions are printed with 2 decimals, effects with 4
                    x, y = va["actions"][n][part], vb["actions"][n][part]
                    if part == "eff":
                        x, y = ("and", x), ("and", y)
                    if not approx(x, y, tol):
                        res.append(Failure(clause=f"{label}: action {n} {part} preserved", expected=str(va["actions"][n][part])[:500], observed=str(vb["actions"][n][part])[:500]))
        return res
    out = cmp(v0, _norm_domain(V.v_domain(d1[1])), "first round")
    if out:
        return out[:3]
    t2 = DomainExporter().extract_domain(d1[1])
    d2 = RA.outcome(RA.parse_domain_text, t2)
    if d2[0] != "ok":
        return [Failure(clause="second export is accepted", expected="domain", observed=d2)]
    return cmp(v0, _norm_domain(V.v_domain(d2[1])), "second round")[:3]


DECIMAL_PRE = ["(and (>= (f ?x) 0.125))", "(and (or (>= (f ?x) 0.125) (g)))", "(and (>= (* (f ?x) 0.3333) 1.5))", "(and (or (<= (* (f ?x) 0.3333) 1.5) (p ?x)))",
               "(and (forall (?z - a) (and (>= (f ?z) 0.125))))", "(and (or (= (c) 2.5) (q ?y)))", "(and (or (> (- (f ?x) (c)) 0.0625) (g)))",
               "(and (or (>= (+ (f ?x) (f ?y)) 1) (g)))", "(and (or (>= (/ (f ?x) (c)) 2) (g)))", "(and (or (and (>= (f ?x) 1) (<= (f ?x) 3)) (g)))"]
DECIMAL_EFF = ["(and (when (and (>= (f ?x) 0.125)) (q ?x)))", "(and (increase (c) 0.0625))", "(and (when (and (g)) (assign (f ?x) (* (c) 0.3333))))",
               "(and (forall (?z - a) (when (and (> (f ?z) 0.125)) (decrease (f ?z) 0.0625))))"]


class DomainRoundTrip(Harness):
    name = "c08-generated"
    prop = "C08"
    shards = 8
    functions = ("DomainExporter.extract_domain", "DomainExporter.write_action", "DomainExporter.write_types", "DomainExporter.write_constants",
                 "DomainExporter.write_functions", "Precondition._print_self", "UniversalPrecondition.__str__", "Action.effects_to_pddl",
                 "ConditionalEffect.__str__", "UniversalEffect.__str__", "NumericalExpressionTree.to_pddl", "Predicate.untyped_representation")
    bound = {"quick": "every formulas(1) body as precondition, every effect_bodies(1) body as effect, constant variants, the 4-action scenario domain", "thorough": "formulas(2), effect_bodies(2)"}
    rule = "one domain per generator body; non-trivial = body with an operator; distinct by text"

    def inputs(self, tier, seed):
        lvl = 1 if tier == "quick" else 2
        for f in G.formulas(lvl):
            yield {"text": G.domain_text([("act", "?x - a ?y - a", f, "(and (g))")])}
        for f in G.const_formulas():
            yield {"text": G.domain_text([("act", "?x - a ?y - a", f, "(and (p k))")], with_const=True)}
        for e in G.effect_bodies(lvl):
            yield {"text": G.domain_text([("act", "?x - a ?y - a", "(and (p ?x))", e)])}
        yield {"text": G.scenario_domain_text()}
        for f in DECIMAL_PRE:
            yield {"text": G.domain_text([("act", "?x - a ?y - a", f, "(and (g))")])}
        for e in DECIMAL_EFF:
            yield {"text": G.domain_text([("act", "?x - a ?y - a", "(and (g))", e)])}

    def nontrivial_key(self, inp):
        return inp["text"]

    def check(self, inp):
        d = RA.outcome(RA.parse_domain_text, inp["text"])
        if d[0] != "ok":
            return []
        self.cases += 1
        return roundtrip_domain(d[1])


class ShippedDomains(Harness):
    name = "c08-shipped"
    prop = "C08"
    functions = ("DomainExporter.extract_domain", "DomainParser.parse_domain")
    bound = {"quick": "every domain file under /repo/tests accepted by the parser", "thorough": "same"}
    rule = "shipped domain files; all non-trivial"

    def inputs(self, tier, seed):
        doms, _ = shipped_pairs()
        for d in doms:
            yield {"domain": str(d)}

    def check(self, inp):
        from pddl_plus_parser.lisp_parsers import DomainParser
        d = RA.outcome(lambda: DomainParser(Path(inp["domain"])).parse_domain())
        if d[0] != "ok":
            return []
        self.cases += 1
        return roundtrip_domain(d[1])


HARNESSES = [DomainRoundTrip(), ShippedDomains()]
