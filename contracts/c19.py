"""C19 — planner logs yield exactly the plan's steps, in order (bounded; the Metric-FF regex is out of deductive reach)."""
import itertools
import os
import random
from pyvc.bounded import Harness, Failure
from spec import repo_api as RA, sexp as SX

import z3
from pyvc.core import Val
from pyvc.sorts import S, B

_lower = z3.Function("str_lower", S, S)
_found = z3.Function("re_found", S, S, B)
FFP = "exporters.ff_output_parser:MetricFFParser."


def _h_lower(interp, st, a):
    return Val(_lower(a[0].t), "str")


def _h_found(interp, st, a):
    return Val(_found(a[0].t, a[1].t), "bool")


def _h_file_lines(interp, st, a):
    return Val(z3.Function("file_lines", S, z3.SeqSort(S))(a[0].t), ("seq", "str"))


_HOOKS = {"lower": _h_lower, "found": _h_found, "file_lines": _h_file_lines}
CONTRACTS = {
    "exporters.enhsp_output_parser:ENHSPParser.parse_plan_content": dict(
        prop="C19", params={"input_path": "str"}, returns=("seq", "str"), locals={"plan_seq": ("seq", "str")},
        # exactly the file's lines, in order, lower-cased: nothing dropped, merged or reordered - for every number of lines
        ensures=["len(result) == len(file_lines(input_path))",
                 "forall_int(lambda j: result[j] == lower(file_lines(input_path)[j]), 0, len(result))"],
        raises={}, modifies=[], spec_hooks=_HOOKS,
        loops={0: dict(invariants=["len(plan_seq) == _i",
                                   "forall_int(lambda j: plan_seq[j] == lower(_seq[j]), 0, _i)"], modifies=[])}),
    FFP + "_open_plan_file": dict(prop="C19", assumed=True, drop_self=False, params={"input_path": "str"}, returns="str",
                                  ensures=[], raises={}, modifies=[], allocates=False),
    FFP + "_parse_plan_content": dict(prop="C19", assumed=True, params={"self": ("ref", "MetricFFParser"), "planner_output": "str"},
                                      returns=("ref", "list_str"), ensures=[], raises={}, modifies=[]),
    FFP + "get_solving_status": dict(
        prop="C19", params={"self": ("ref", "MetricFFParser"), "input_path": "str"}, returns="tuple",
        locals={},
        # classification relative to the marker searches: a log with the plan marker is 'ok' (with the extracted steps); otherwise
        # it yields NO actions and is 'no-solution' iff one of the three no-solution markers occurs, else 'timeout'
        ensures=["implies(found('ff: found legal plan as follows', content_of(input_path)), result[0] == 'ok')",
                 "implies(not found('ff: found legal plan as follows', content_of(input_path)), "
                 "result[0] == ('no-solution' if (found('problem proven unsolvable.', content_of(input_path)) or "
                 "found('ff: goal can be simplified to FALSE. No plan will solve it', content_of(input_path)) or "
                 "found('all increasers applied yet goal not fulfilled', content_of(input_path))) else 'timeout'))",
                 "implies(not found('ff: found legal plan as follows', content_of(input_path)), len(result[1]) == 0)"],
        raises={}, modifies=[],
        calls={"self._open_plan_file": FFP + "_open_plan_file", "self._parse_plan_content": FFP + "_parse_plan_content"},
        static_calls={"self._open_plan_file": True},
        spec_hooks=dict(_HOOKS, content_of=lambda interp, st, a: Val(z3.Function("file_content", S, S)(a[0].t), "str"))),
}
CONTRACTS[FFP + "_open_plan_file"]["ensures"] = ["result == content_of(input_path)"]
CONTRACTS[FFP + "_open_plan_file"]["spec_hooks"] = {"content_of": lambda interp, st, a: Val(z3.Function("file_content", S, S)(a[0].t), "str")}
LEVEL = "exploration"
EXPLANATION = ("bounded stand-in only: the meaning of MetricFFParser._parse_plan_content is that of a backtracking regular expression executed by "
               "CPython's re engine; no contract within reach of the SMT back ends gives finditer a usable semantics for unbounded logs, so the "
               "contract _parse_plan_content(render_log(plan, layout)) == steps is executed over plans of 0..150 steps x header/trailer/spacing "
               "layouts; ENHSP one-action-per-line parsing and the status classification are executed the same way. Nothing is proved.")
TRUSTED = ["render_log in this file reproduces Metric-FF's plan layout ('step    0: NAME ARGS', continuation lines indented, blank line, trailer)"]
ASSUMPTIONS = ["bounded: plan lengths {0..12, 99, 100, 101, 150}; names over [a-z0-9_-]; 5 headers x 7 trailers x LF/CRLF"]

HEADERS = ["", "ff: parsing domain file\ndomain 'X' defined\n ... done.\n", "ff: found legal plan as follows\n", "advancing to distance:    3\n                          2\n\nff: found legal plan as follows\n",
           "warning: numeric precondition. turning cost-minimizing relaxed plans OFF.\n\nff: found legal plan as follows\n"]
TRAILERS = ["", "\n\ntime spent:    0.00 seconds instantiating 12 easy, 0 hard action templates\n               0.00 seconds total time\n",
            "\n\nplan cost: 12.000000\n", "\n\nplan cost 12\n", "\ntotal 0 7\n", "\n\n\n", "\n     \nfinished\n"]
NAMES = ["move", "pick-up", "drop_it", "a1", "load-truck2", "x"]
ARGS = ["a", "b1", "loc-1", "t_2", "pos-6-3", "o"]


def _steps(n, rnd):
    return [(rnd.choice(NAMES), [rnd.choice(ARGS) for _ in range(rnd.randint(0, 3))]) for _ in range(n)]


def render_log(steps, header, trailer, crlf, upper=True):
    lines = []
    for i, (name, args) in enumerate(steps):
        txt = " ".join([name] + args)
        if upper:
            txt = txt.upper()
        prefix = "step " if i == 0 else "     "
        lines.append(f"{prefix}{i:4d}: {txt}")
    body = "\n".join(lines) + ("\n" if lines else "")
    log = header + ("\n" if header else "") + body + trailer
    return log.replace("\n", "\r\n") if crlf else log


class FFLogs(Harness):
    name = "c19-ff"
    prop = "C19"
    shards = 4
    functions = ("MetricFFParser._parse_plan_content", "MetricFFParser.get_solving_status", "MetricFFParser.parse_plan")
    bound = {"quick": "plan lengths {0..12, 99, 100, 101, 150} x 5 headers x 7 trailers x {LF, CRLF}, one seeded plan per length", "thorough": "5 seeded plans per length"}
    rule = "(length, header, trailer, line ending); non-trivial = length >= 2; distinct by input"

    def inputs(self, tier, seed):
        reps = 1 if tier == "quick" else 5
        for n in list(range(0, 13)) + [99, 100, 101, 150]:
            for rep in range(reps):
                for h in range(len(HEADERS)):
                    for t in range(len(TRAILERS)):
                        for crlf in (False, True):
                            yield {"n": n, "seed": seed * 1000 + rep, "header": h, "trailer": t, "crlf": crlf}

    def nontrivial_key(self, inp):
        return str(inp) if inp["n"] >= 2 else None

    def check(self, inp):
        from pddl_plus_parser.exporters.ff_output_parser import MetricFFParser
        self.cases += 1
        rnd = random.Random(inp["seed"] * 977 + inp["n"])
        steps = _steps(inp["n"], rnd)
        log = render_log(steps, HEADERS[inp["header"]], TRAILERS[inp["trailer"]], inp["crlf"])
        got = RA.outcome(MetricFFParser()._parse_plan_content, log)
        want = [[name] + args for name, args in steps]
        out = []
        if got[0] != "ok":
            return [Failure(clause="_parse_plan_content does not raise", expected="list", observed=got)]
        toks = [SX.lex(x)[1:-1] if x.strip().startswith("(") else None for x in got[1]]
        if toks != want:
            cls = None
            if inp["crlf"]:
                cls = "ff-crlf"
            elif len(toks) == len(want) and toks[:-1] == want[:-1] and toks[-1] is not None and toks[-1][:len(want[-1])] == want[-1]:
                cls = "ff-trailer-swallowed"
            out.append(Failure(clause="extracted steps == the plan's steps, in order, lower-cased, arguments in order, independent of surrounding log text",
                               expected=want[-3:], observed=[t for t in toks[-3:]], cls=cls,
                               input={**inp, "log_tail": log[-160:]}))
        # status
        p = RA.write_tmp(log, ".log")
        try:
            st = RA.outcome(MetricFFParser().get_solving_status, p)
        finally:
            os.unlink(p)
        has_marker = "ff: found legal plan as follows" in log
        if st[0] != "ok":
            out.append(Failure(clause="get_solving_status does not raise", expected="status", observed=st))
        elif has_marker and (st[1][0] != "ok"):
            out.append(Failure(clause="a log with the plan marker is classified ok", expected="ok", observed=st[1][0]))
        elif not has_marker and (st[1][0] != "timeout" or st[1][1] != []):
            out.append(Failure(clause="a log without plan marker and without no-solution marker is a timeout and yields no actions", expected=("timeout", []), observed=st[1]))
        return out[:2]


class NoPlanLogs(Harness):
    name = "c19-status"
    prop = "C19"
    functions = ("MetricFFParser.get_solving_status",)
    bound = {"quick": "3 no-solution markers x 3 surroundings + logs with digits and colons but no plan", "thorough": "same"}
    rule = "hand-listed logs; all non-trivial"

    def inputs(self, tier, seed):
        for m in ["problem proven unsolvable.", "ff: goal can be simplified to FALSE. No plan will solve it", "all increasers applied yet goal not fulfilled"]:
            for pre, post in (("", ""), ("ff: parsing domain file\n", "\n"), ("best first search space empty!\n", "\n\ntime spent:    0.00 seconds\n")):
                yield {"log": pre + m + post, "want": "no-solution"}
        yield {"log": "ff: parsing problem file\nproblem 'P' defined\n ... done.\n\n\ntime spent:    9: seconds total\n", "want": "timeout"}
        yield {"log": "", "want": "timeout"}

    def check(self, inp):
        from pddl_plus_parser.exporters.ff_output_parser import MetricFFParser
        self.cases += 1
        p = RA.write_tmp(inp["log"], ".log")
        try:
            st = RA.outcome(MetricFFParser().get_solving_status, p)
        finally:
            os.unlink(p)
        if st != ("ok", (inp["want"], [])):
            return [Failure(clause="a log without a plan is classified no-solution / timeout and yields no actions", expected=(inp["want"], []), observed=st)]
        return []


class ENHSP(Harness):
    name = "c19-enhsp"
    prop = "C19"
    functions = ("ENHSPParser.parse_plan_content", "ENHSPParser.parse_plan")
    bound = {"quick": "plans of 0..12, 100, 150 steps, one action per line, mixed case", "thorough": "same"}
    rule = "plan length; non-trivial = length >= 2"

    def inputs(self, tier, seed):
        for n in list(range(0, 13)) + [100, 150]:
            yield {"n": n, "seed": seed}
            yield {"n": n, "seed": seed, "no_final_newline": True}

    def nontrivial_key(self, inp):
        return inp["n"] if inp["n"] >= 2 else None

    def check(self, inp):
        from pddl_plus_parser.exporters.enhsp_output_parser import ENHSPParser
        self.cases += 1
        rnd = random.Random(inp["seed"] + inp["n"])
        steps = _steps(inp["n"], rnd)
        text = "".join("(" + " ".join([nm.upper()] + args) + ")\n" for nm, args in steps)
        if inp.get("no_final_newline"):
            text = text.rstrip("\n")
        p = RA.write_tmp(text, ".plan")
        try:
            got = RA.outcome(ENHSPParser.parse_plan_content, p)
            if got[0] == "ok":
                ENHSPParser().parse_plan(p)
                rewritten = p.read_text()
        finally:
            os.unlink(p)
        want = [[nm] + args for nm, args in steps]
        if got[0] != "ok" or [SX.lex(x)[1:-1] for x in got[1]] != want:
            return [Failure(clause="ENHSP plan lines == steps, in order, lower-cased", expected=want[:3], observed=str(got)[:300])]
        if [SX.lex(x)[1:-1] for x in rewritten.splitlines()] != want:
            return [Failure(clause="parse_plan rewrites the file with the same steps", expected=want[:3], observed=rewritten[:200])]
        return []


HARNESSES = [FFLogs(), NoPlanLogs(), ENHSP()]
