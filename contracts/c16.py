"""C16 — a joint action acts like its members applied one after another, in any order (bounded)."""
import itertools
import random
from pyvc.bounded import Harness, Failure
from spec import pddl_sem as PS, semantics as SEM, gen as G, repo_api as RA, sexp as SX, views as V

import z3
from pyvc.core import Val
from pyvc.sorts import I, S, B, Q

MAC = "multi_agent.common:"
OP = "models.pddl_operator:Operator."
_ST = ("ref", "State")
_OPR = ("ref", "Operator")
# call_app(action, args, state): the precondition of action(args) holds in state   (established bounded by C02)
_call_app = z3.Function("call_app", I, Q, I, B)
_op_succ = z3.Function("op_succ", I, I, I, B)


def _op_app(interp, st, op, state):
    act = interp.read_field(st, op, "Operator", "action")
    objs = interp.read_field(st, Val(interp.read_field(st, op, "Operator", "grounded_call_objects").t, ("ref", "list_str")), "list_str", "items")
    return _call_app(act.t, objs.t, state.t)


def _h_op_applicable(interp, st, a):
    return Val(_op_app(interp, st, a[0], a[1]), "bool")


def _h_op_succ(interp, st, a):
    return Val(_op_succ(a[0].t, a[1].t, a[2].t), "bool")


def _member_ok(interp, st, domain, call, state, allow):
    """member is nop, or applicable in `state`, or inapplicable actions are allowed"""
    name = interp.read_field(st, call, "ActionCall", "name")
    params = interp.read_field(st, Val(interp.read_field(st, call, "ActionCall", "parameters").t, ("ref", "list_str")), "list_str", "items")
    acts = interp.read_field(st, domain, "Domain", "actions")
    amap = interp.read_field(st, Val(acts.t, ("ref", "dict_str_ref")), "dict_str_ref", "map")
    return z3.Or(name.t == z3.StringVal("nop"), _call_app(z3.Select(amap.t, name.t), params.t, state.t), allow.t)


def _h_member_ok(interp, st, a):
    return Val(_member_ok(interp, st, a[0], a[1], a[2], a[3]), "bool")


_HOOKS = {"op_applicable": _h_op_applicable, "op_succ": _h_op_succ, "member_ok": _h_member_ok}
MAE = "multi_agent.multi_agent_trajectory_exporter:MultiAgentTrajectoryExporter."
_MT = ("ref", "MultiAgentTrajectoryTriplet")
# joint_step(t, prev, line, objs, allow): what create_multi_agent_triplet guarantees about one joint step (executed bounded by c16-export / c16-joint)
_joint_step = z3.Function("joint_step", I, I, S, I, B, B)
_HOOKS2 = {"joint_step": lambda interp, st, a: Val(_joint_step(a[0].t, a[1].t, a[2].t, a[3].t, a[4].t), "bool")}
CONTRACTS = {
    OP + "apply": dict(
        prop="C16", assumed=True,
        params={"self": _OPR, "previous_state": _ST, "allow_inapplicable_actions": "bool", "skip_validation": "bool"}, returns=_ST,
        ensures=["fresh(result)", "op_succ(self, previous_state, result)"],
        raises={"ValueError": "not op_applicable(self, previous_state) and not allow_inapplicable_actions and not skip_validation"},
        must_raise=["not op_applicable(self, previous_state) and not allow_inapplicable_actions and not skip_validation"],
        modifies=["Operator.grounded[self]", "Operator.grounded_effects[self]", "Operator.grounded_preconditions[self]"], spec_hooks=_HOOKS),
    OP + "is_applicable": dict(
        prop="C16", assumed=True, params={"self": _OPR, "state": _ST}, returns="bool",
        ensures=["result == op_applicable(self, state)"], raises={},
        modifies=["Operator.grounded[self]", "Operator.grounded_effects[self]", "Operator.grounded_preconditions[self]"], spec_hooks=_HOOKS),
    "models.pddl_state:State.copy": dict(prop="C16", assumed=True, params={"self": _ST}, returns=_ST, ensures=["fresh(result)"], raises={}, modifies=[]),
    MAC + "create_initial_state": dict(
        prop="C16", params={"problem": ("ref", "Problem")}, returns=_ST,
        ensures=["fresh(result)", "result.is_init", "result.state_predicates == problem.initial_state_predicates",
                 "result.state_fluents == problem.initial_state_fluents"], raises={}, modifies=[]),
    MAE + "create_multi_agent_triplet": dict(
        prop="C16", assumed=True,
        params={"self": ("ref", "MultiAgentTrajectoryExporter"), "previous_state": _ST, "action_call": "str", "problem_objects": ("ref", "opaque"),
                "allow_inapplicable_actions": "bool"},
        returns=_MT, ensures=["fresh(result)", "result.previous_state == previous_state", "fresh(result.next_state)",
                              "joint_step(result, previous_state, action_call, problem_objects, allow_inapplicable_actions)"],
        raises={"ValueError": "True", "KeyError": "True", "IndexError": "True"}, modifies=[], spec_hooks=_HOOKS2),
    MAE + "_read_plan": dict(prop="C16", assumed=True, params={"self": ("ref", "MultiAgentTrajectoryExporter"), "plan_file_path": "str"},
                             returns=("ref", "list_str"), ensures=["fresh(result)"], raises={}, modifies=[]),
    MAE + "parse_plan": dict(
        prop="C16",
        params={"self": ("ref", "MultiAgentTrajectoryExporter"), "problem": ("ref", "Problem"), "plan_path": "str",
                "action_sequence": ("ref", "list_str"), "allow_inapplicable_actions": "bool"},
        optional=("action_sequence",), locals={"triplets": ("seq", _MT)}, returns=("seq", _MT),
        requires=["action_sequence is not None", "allocated(self)", "allocated(self.domain)", "allocated(self.domain.actions)"],
        # one step per joint action, in order; first pre-state = the problem's initial state; chained states; each step is the joint step of its line
        ensures=["len(result) == len(action_sequence)",
                 "implies(len(result) > 0, result[0].previous_state.is_init and result[0].previous_state.state_predicates == problem.initial_state_predicates "
                 "and result[0].previous_state.state_fluents == problem.initial_state_fluents)",
                 "forall_int(lambda k: result[k].previous_state == result[k - 1].next_state, 1, len(result))",
                 "forall_int(lambda k: line_ok(self.domain, seq(action_sequence)[k], result[k].previous_state, allow_inapplicable_actions), 0, len(result))"],
        raises={"ValueError": "True", "KeyError": "True", "IndexError": "True"}, modifies=[],
        calls={"self.create_multi_agent_triplet": MAE + "create_multi_agent_triplet", "self._read_plan": MAE + "_read_plan",
               "create_initial_state": MAC + "create_initial_state"},
        loops={0: dict(invariants=[
            "allocated(previous_state)",
            "len(triplets) == _i",
            "implies(_i == 0, previous_state.is_init and previous_state.state_predicates == problem.initial_state_predicates and "
            "previous_state.state_fluents == problem.initial_state_fluents)",
            "implies(_i > 0, previous_state == triplets[_i - 1].next_state)",
            "implies(_i > 0, triplets[0].previous_state.is_init and triplets[0].previous_state.state_predicates == problem.initial_state_predicates and "
            "triplets[0].previous_state.state_fluents == problem.initial_state_fluents)",
            "forall_int(lambda k: triplets[k].previous_state == triplets[k - 1].next_state, 1, _i)",
            "forall_int(lambda k: line_ok(self.domain, _seq[k], triplets[k].previous_state, allow_inapplicable_actions), 0, _i)",
        ], modifies=[])},
        spec_hooks=_HOOKS2),
    MAC + "apply_actions": dict(
        prop="C16",
        params={"domain": ("ref", "Domain"), "current_state": _ST, "joint_action": ("ref", "list_ActionCall"),
                "allow_inapplicable_actions": "bool", "problem_objects": ("ref", "opaque")},
        optional=("problem_objects",),
        locals={"action_call": ("ref", "ActionCall"), "operator": _OPR, "accumulative_changed_state": _ST},
        returns=_ST, dict_values={"dict_str_ref": "Action"},
        requires=["allocated(domain.actions)"],
        # a normal return means that every non-nop member was applicable in the CURRENT state (or inapplicable actions were allowed) ...
        ensures=["forall_int(lambda j: member_ok(domain, seq(joint_action)[j], current_state, allow_inapplicable_actions), 0, len(joint_action))",
                 "fresh(result)"],
        # ... and the refusal is an error raised exactly in that situation (KeyError only for an undeclared action name)
        raises={"ValueError": "exists_int(lambda j: not member_ok(domain, seq(joint_action)[j], current_state, allow_inapplicable_actions), 0, len(joint_action))",
                "KeyError": "True"},
        # the input state, the domain and the joint action are not written (strict frame: only objects created by this call)
        modifies=[],
        calls={"Operator.apply": OP + "apply", "Operator.is_applicable": OP + "is_applicable", "State.copy": "models.pddl_state:State.copy"},
        loops={0: dict(invariants=["forall_int(lambda j: member_ok(domain, _seq[j], current_state, allow_inapplicable_actions), 0, _i)",
                                   "fresh(accumulative_changed_state)"], modifies=[])},
        spec_hooks=_HOOKS),
}
LEVEL = "other"
EXPLANATION = ("bounded stand-in: apply_actions on joint actions of 1-3 members (scenario calls, nop padding at every position) over sampled "
               "reachable states: when all non-nop members are applicable and pairwise non-interfering the result equals the sequential "
               "application in every order; an inapplicable member is refused with ValueError unless allowed; the input state is unchanged; "
               "the multi-agent exporter yields one chained step per joint action.")
TRUSTED = ["spec/semantics.py:succ/holds; interference = add/delete clash, delete of the other's precondition atom, write/write or read/write clash on a fluent"]
ASSUMPTIONS = ["bounded: scenario domain, 2 objects, states reachable by plans of length <= 2", "universal effects are exercised only through the exporter path that passes problem objects (see known finding)"]


def _touch(dspec, call, st, objects):
    """(adds, dels, writes, pre_atoms, reads) of a ground call in state st"""
    act = dspec["actions"][call[0]]
    env = {p: a for (p, _), a in zip(act["params"], call[1])}
    adds, dels, writes = set(), set(), set()
    for genv, effs in SEM.firing_groups(act["eff"], env, st, objects, dspec["types"]):
        for e in effs:
            if e[0] == "add":
                adds.add((e[1], tuple(genv.get(a, a) for a in e[2])))
            elif e[0] == "del":
                dels.add((e[1], tuple(genv.get(a, a) for a in e[2])))
            else:
                writes.add((e[2][1], tuple(genv.get(a, a) for a in e[2][2])))
    atoms, fls = G.mentioned([act["pre"]] + list(act["eff"]), [env], objects)
    return adds, dels, writes, set(atoms), set(fls)


def interfere(dspec, a, b, st, objects):
    """False, or the kind of interference: 'add-delete', 'touches-precondition', 'numeric'"""
    A, B = _touch(dspec, a, st, objects), _touch(dspec, b, st, objects)
    if A[0] & B[1] or A[1] & B[0]:
        return "add-delete"
    if A[2] & B[2] or A[2] & B[4] or B[2] & A[4]:
        return "numeric"
    if (A[1] | A[0]) & B[3] or (B[1] | B[0]) & A[3]:
        return "touches-precondition"
    return False


class JointActions(Harness):
    name = "c16-joint"
    prop = "C16"
    shards = 8
    functions = ("apply_actions", "MultiAgentTrajectoryExporter.create_multi_agent_triplet", "MultiAgentTrajectoryExporter.parse_plan",
                 "multi_agent_trajectory_exporter.parse_action_call", "Operator.apply", "Operator.is_applicable")
    bound = {"quick": "12 states reachable by plans of length <= 2 x all joint actions of 1..3 slots over {nop} + 11 ground calls (300 sampled per tier) x allow in {False, True}; every permutation of the members",
             "thorough": "1,500 sampled joint actions"}
    rule = "(state, joint action, allow); non-trivial = >= 2 non-nop members; distinct by input"

    def _states(self, dspec, pspec, rnd):
        objects = dict(pspec["objects"])
        init = (frozenset(pspec["facts"]), dict(pspec["fluents"]))
        seen = [init]
        for plan in G.plans(2):
            st = init
            ok = True
            for name, args in plan:
                nxt = SEM.succ(dspec["actions"][name], args, st, objects, dspec["types"])
                if nxt is None:
                    ok = False
                    break
                st = nxt
            if ok and not any(SEM.states_equal(st, s) for s in seen):
                seen.append(st)
        return seen[:12]

    def inputs(self, tier, seed):
        rnd = random.Random(seed)
        calls = [None] + G.scenario_calls()
        joints = [j for n in (1, 2, 3) for j in itertools.product(calls, repeat=n) if any(j)]
        joints = rnd.sample(joints, 300 if tier == "quick" else 1500) + [(None,), (None, None), (None, None, None)]   # all-nop joint actions change nothing
        for j in joints:
            for si in range(12):
                for allow in (False, True):
                    yield {"joint": [None if c is None else [c[0], list(c[1])] for c in j], "state": si, "allow": allow}

    def nontrivial_key(self, inp):
        return str(inp) if sum(1 for c in inp["joint"] if c) >= 2 else None

    def check(self, inp):
        from pddl_plus_parser.models import ActionCall
        from pddl_plus_parser.multi_agent.common import apply_actions
        dom = RA.parse_domain_text(G.scenario_domain_text())
        dspec = PS.sem_domain(SX.read_text(G.scenario_domain_text()))
        pspec = PS.sem_problem(SX.read_text(G.scenario_problem_text()), dspec)
        objects = dict(pspec["objects"])
        states = self._states(dspec, pspec, None)
        if inp["state"] >= len(states):
            return []
        st = states[inp["state"]]
        joint = [None if c is None else (c[0], tuple(c[1])) for c in inp["joint"]]
        members = [c for c in joint if c is not None]
        from pddl_plus_parser.models import PDDLObject
        pobjs = {n: PDDLObject(n, dom.types[t]) for n, t in objects.items()}
        self.cases += 1
        calls = [ActionCall("nop", []) if c is None else ActionCall(c[0], list(c[1])) for c in joint]
        rst = RA.make_state(dom, st[0], st[1])
        got = RA.outcome(apply_actions, dom, rst, calls, inp["allow"], pobjs)
        out = []
        if not SEM.states_equal(V.v_state(rst), st):
            out.append(Failure(clause="apply_actions leaves its input state unchanged", expected=str(st), observed=str(V.v_state(rst))))
        applicable = [SEM.holds(dspec["actions"][c[0]]["pre"], {p: a for (p, _), a in zip(dspec["actions"][c[0]]["params"], c[1])}, st, objects, dspec["types"]) for c in members]
        if not all(applicable) and not inp["allow"]:
            if got != ("exc", "ValueError"):
                out.append(Failure(clause="a joint action with a member that is inapplicable in the current state is refused unless allowed", expected="ValueError", observed=str(got)[:200]))
            return out
        if not all(applicable):
            return out     # explicitly allowed inapplicable members: outcome not constrained by the property
        if any(interfere(dspec, a, b, st, objects) for a, b in itertools.combinations(members, 2)):
            return out
        finals = []
        for perm in itertools.permutations(members):
            s = st
            for c in perm:
                s = SEM.succ(dspec["actions"][c[0]], c[1], s, objects, dspec["types"], check_pre=False)
            finals.append(s)
        if any(not SEM.states_equal(finals[0], f) for f in finals):
            return out     # spec-level: members are not order independent here (interference notion too weak): not a case of the property
        if got[0] != "ok" or not SEM.states_equal(V.v_state(got[1]), finals[0]):
            out.append(Failure(clause="joint action of applicable, non-interfering members == members applied one after another (any order); nop changes nothing",
                               expected=str(finals[0]), observed=str(V.v_state(got[1])) if got[0] == "ok" else str(got)))
        # every permutation of the member list gives the same state
        for perm in list(itertools.permutations(calls))[:6]:
            g2 = RA.outcome(apply_actions, dom, RA.make_state(dom, st[0], st[1]), list(perm), inp["allow"], pobjs)
            if g2[0] != "ok" or not SEM.states_equal(V.v_state(g2[1]), finals[0]):
                out.append(Failure(clause="the result does not depend on the order of the members", expected=str(finals[0]), observed=str(g2)[:300]))
                break
        return out[:3]


class JointExport(Harness):
    name = "c16-export"
    prop = "C16"
    functions = ("MultiAgentTrajectoryExporter.parse_plan", "MultiAgentTrajectoryExporter.export", "MultiAgentTrajectoryExporter.create_multi_agent_triplet")
    bound = {"quick": "120 sampled joint plans of 1..3 steps, 2 slots", "thorough": "600"}
    rule = "joint plan; non-trivial = >= 2 steps"

    def inputs(self, tier, seed):
        rnd = random.Random(seed)
        calls = [None] + G.scenario_calls()
        steps = [s for s in itertools.product(calls, repeat=2) if any(s)]
        for _ in range(120 if tier == "quick" else 600):
            n = rnd.randint(1, 3)
            yield {"plan": [[None if c is None else [c[0], list(c[1])] for c in rnd.choice(steps)] for _ in range(n)]}

    def nontrivial_key(self, inp):
        return str(inp) if len(inp["plan"]) >= 2 else None

    def check(self, inp):
        from pddl_plus_parser.multi_agent.multi_agent_trajectory_exporter import MultiAgentTrajectoryExporter
        self.cases += 1
        dom = RA.parse_domain_text(G.scenario_domain_text())
        prob = RA.parse_problem_text(G.scenario_problem_text(), dom)
        lines = ["[" + ",".join("(nop )" if c is None else G.call_text((c[0], tuple(c[1]))) for c in step) + "]" for step in inp["plan"]]
        ex = MultiAgentTrajectoryExporter(dom)
        r = RA.outcome(ex.parse_plan, prob, None, lines, True)
        if r[0] != "ok":
            return [Failure(clause="parse_plan with inapplicable actions allowed returns the triplets", expected="triplets", observed=r)]
        tr = r[1]
        out = []
        if len(tr) != len(lines):
            return [Failure(clause="one step per joint action", expected=len(lines), observed=len(tr))]
        for k, t in enumerate(tr):
            want = [["nop"] if c is None else [c[0]] + list(c[1]) for c in inp["plan"][k]]
            got = [SX.lex(str(op))[1:-1] for op in t.joint_action]
            if got != want:
                out.append(Failure(clause="step k's operators are joint line k, nop in place", expected=want, observed=got))
            if k > 0 and t.previous_state is not tr[k - 1].next_state and not (t.previous_state == tr[k - 1].next_state):
                out.append(Failure(clause="chained states", expected="pre k == post k-1", observed="different"))
        txt = "".join(MultiAgentTrajectoryExporter.export(tr))
        r2 = RA.outcome(SX.read_text, txt)
        if r2[0] != "ok" or len(r2[1]) != 2 * len(lines) + 1:
            out.append(Failure(clause="exported joint trajectory is one form with state / operators / state alternation", expected=2 * len(lines) + 1, observed=str(r2)[:200]))
        return out[:3]


class NoObjects(Harness):
    """apply_actions called without the problem objects (the parameter is optional): forall effects cannot be applied."""
    name = "c16-noobjects"
    prop = "C16"
    functions = ("apply_actions", "Operator._apply_universal_effects")
    bound = {"quick": "joint action [cl] on the state {g, q(o1), q(o2)} without problem objects", "thorough": "same"}
    rule = "one witness input"

    def inputs(self, tier, seed):
        yield {"with_objects": False}
        yield {"with_objects": True}

    def check(self, inp):
        from pddl_plus_parser.models import ActionCall, PDDLObject
        from pddl_plus_parser.multi_agent.common import apply_actions
        self.cases += 1
        dom = RA.parse_domain_text(G.scenario_domain_text())
        pobjs = {n: PDDLObject(n, dom.types[t]) for n, t in G.OBJECTS.items()}
        st = RA.make_state(dom, [("g", ()), ("q", ("o1",)), ("q", ("o2",))], {("c", ()): 3.0})
        got = RA.outcome(apply_actions, dom, st, [ActionCall("cl", [])], False, pobjs if inp["with_objects"] else None)
        facts = V.v_state(got[1])[0] if got[0] == "ok" else None
        if facts != frozenset():
            return [Failure(clause="joint action [cl] deletes (g) and every (q ?z)", expected=[], observed=str(got if facts is None else sorted(facts)),
                            cls=None if inp["with_objects"] else "joint-without-problem-objects")]
        return []


HARNESSES = [JointActions(), JointExport(), NoObjects()]

# ---- deductive: create_multi_agent_triplet — one joint step --------------------------------------------------------------------------------
# Relative to the assumed contract of the line parser (`pj_len / pj_name / pj_params` name what a plan line denotes) and to apply_actions
# (proved above).  A triplet is only produced when every non-nop member of the line is applicable in the given state (or inapplicable
# actions are allowed); it stores the given state itself as its pre-state and a fresh post-state.
_pj_len = z3.Function("pj_len", S, I)
_pj_name = z3.Function("pj_name", S, I, S)
_pj_params = z3.Function("pj_params", S, I, Q)
_MAX = "multi_agent.multi_agent_trajectory_exporter:"


def _h_line_ok(interp, st, a):
    """line_ok(domain, line, state, allow): every member of the joint action written on `line` is a nop, or applicable in state, or allowed"""
    dom, line, state, allow = a
    acts = interp.read_field(st, dom, "Domain", "actions")
    amap = interp.read_field(st, Val(acts.t, ("ref", "dict_str_ref")), "dict_str_ref", "map")
    j = z3.Int("lj!ok")
    nm = _pj_name(line.t, j)
    return Val(z3.ForAll([j], z3.Implies(z3.And(j >= 0, j < _pj_len(line.t)),
                                          z3.Or(nm == z3.StringVal("nop"), _call_app(z3.Select(amap.t, nm), _pj_params(line.t, j), state.t), allow.t))), "bool")


_HOOKS3 = dict(_HOOKS, line_ok=_h_line_ok,
               pj_len=lambda interp, st, a: Val(_pj_len(a[0].t), "int"),
               pj_name=lambda interp, st, a: Val(_pj_name(a[0].t, a[1].t), "str"),
               pj_params=lambda interp, st, a: Val(_pj_params(a[0].t, a[1].t), ("seq", "str")))
CONTRACTS[_MAX + "parse_action_call"] = dict(
    prop="C16", assumed=True, params={"joint_action_call": "str"}, returns=("ref", "JointActionCall"),
    ensures=["fresh(result)", "fresh(result.actions)", "len(seq(result.actions)) == pj_len(joint_action_call)", "pj_len(joint_action_call) >= 0",
             "forall_int(lambda j: fresh(seq(result.actions)[j]) and fresh(seq(result.actions)[j].parameters) and "
             "seq(result.actions)[j].name == pj_name(joint_action_call, j) and "
             "seq(seq(result.actions)[j].parameters) == pj_params(joint_action_call, j), 0, pj_len(joint_action_call))"],
    raises={"IndexError": "True"}, modifies=[], spec_hooks=_HOOKS3)
CONTRACTS[MAE + "create_multi_agent_triplet"] = dict(
    prop="C16", shards=4,
    params={"self": ("ref", "MultiAgentTrajectoryExporter"), "previous_state": _ST, "action_call": "str", "problem_objects": ("ref", "opaque"),
            "allow_inapplicable_actions": "bool"},
    locals={"executed_actions": ("ref", "list_ActionCall"), "operators": ("seq", ("ref", "opaque")), "joint_action": ("ref", "JointActionCall"),
            "next_state": _ST},
    returns=_MT, dict_values={"dict_str_ref": "Action"},
    requires=["allocated(self)", "allocated(self.domain)", "allocated(self.domain.actions)", "allocated(previous_state)"],
    ensures=["fresh(result)", "result.previous_state is previous_state", "fresh(result.next_state)",
             # produced only if every member of the line is a nop, applicable in the given state, or allowed
             "line_ok(self.domain, action_call, previous_state, allow_inapplicable_actions)"],
    raises={"ValueError": "not line_ok(self.domain, action_call, previous_state, allow_inapplicable_actions)", "KeyError": "True", "IndexError": "True"},
    modifies=[],
    calls={"parse_action_call": _MAX + "parse_action_call", "apply_actions": MAC + "apply_actions"},
    loops={0: dict(invariants=[], modifies=["Operator.action", "Operator.domain", "Operator.grounded_call_objects", "Operator.grounded", "Operator.problem_objects",
                                            "Operator.grounded_effects", "Operator.lifted_universal_effects", "Operator.logger"])},
    spec_hooks=_HOOKS3)

# parse_plan (above) now rests on the contract just discharged; there `line_ok` is used as an uninterpreted relation (its definition is not
# needed to carry it from each step into the result)
_line_ok_opaque = z3.Function("line_ok", I, S, I, B, B)
CONTRACTS[MAE + "parse_plan"]["spec_hooks"] = dict(_HOOKS2, line_ok=lambda interp, st, a: Val(_line_ok_opaque(a[0].t, a[1].t, a[2].t, a[3].t), "bool"))
