"""C09 — exporting a problem and parsing it back preserves it (bounded round trips over generated and shipped problems)."""
import itertools
import os
from pathlib import Path
from pyvc.bounded import Harness, Failure
from spec import pddl_sem as PS, gen as G, repo_api as RA, sexp as SX, views as V
from contracts import c05

CONTRACTS = {}
LEVEL = "other"
EXPLANATION = ("bounded stand-in: every well-formed generated problem of C05's grid, and every problem file shipped under /repo/tests that the "
               "parser accepts, is exported and parsed back against the same domain; name, objects and types, initial facts, fluent values "
               "(incl. repeated arguments), goal literals and numeric goals must coincide; a second round changes nothing.")
TRUSTED = ["spec/views.py:v_problem"]
ASSUMPTIONS = ["numeric goal constants compared at the exporter's 4 decimals", "bounded: C05 grid (8 object lists x 12 inits x 9 goals) + shipped files"]


def _cmp_problem(a, b, label):
    out = []
    for key in ("name", "facts", "fluents"):
        if a[key] != b[key]:
            out.append(Failure(clause=f"{label}: {key} preserved", expected=str(a[key]), observed=str(b[key])))
    if dict(a["objects"]) != dict(b["objects"]):
        out.append(Failure(clause=f"{label}: objects and types preserved", expected=sorted(a["objects"]), observed=sorted(b["objects"])))
    if sorted(a["goal_lits"]) != sorted(b["goal_lits"]):
        out.append(Failure(clause=f"{label}: goal literals preserved", expected=sorted(a["goal_lits"]), observed=sorted(b["goal_lits"])))
    if sorted(map(str, a["goal_num"])) != sorted(map(str, b["goal_num"])):
        out.append(Failure(clause=f"{label}: numeric goal conditions preserved", expected=str(a["goal_num"]), observed=str(b["goal_num"])))
    return out


def roundtrip(dom, prob):
    from pddl_plus_parser.exporters import ProblemExporter
    v0 = V.v_problem(prob)
    t1 = RA.outcome(ProblemExporter().extract_problem, prob)
    if t1[0] != "ok":
        return [Failure(clause="export does not raise", expected="text", observed=t1)]
    p1 = RA.outcome(RA.parse_problem_text, t1[1], dom)
    if p1[0] != "ok":
        return [Failure(clause="exported problem is accepted by the problem parser", expected="problem", observed=(p1, t1[1][:400]))]
    out = _cmp_problem(v0, V.v_problem(p1[1]), "first round")
    if out:
        return out[:3]
    t2 = ProblemExporter().extract_problem(p1[1])
    p2 = RA.outcome(RA.parse_problem_text, t2, dom)
    if p2[0] != "ok":
        return [Failure(clause="second export is accepted", expected="problem", observed=p2)]
    return _cmp_problem(v0, V.v_problem(p2[1]), "second round")[:3]


class ProblemRoundTrip(Harness):
    name = "c09-generated"
    prop = "C09"
    shards = 4
    functions = ("ProblemExporter.extract_problem", "ProblemExporter.write_objects", "ProblemExporter.write_initial_state", "ProblemExporter.write_goal_state",
                 "PDDLFunction.state_representation", "GroundedPredicate.untyped_representation", "PDDLObject.__str__", "NumericalExpressionTree.to_pddl")
    bound = {"quick": "all accepted problems of C05's grid (8 object lists x 12 inits x 9 goals)", "thorough": "the same grid plus 1,500 seeded random problems (random fact subsets, fluent values incl. negative / fractional / many digits / exponent notation, random goals)"}
    rule = "problem text; non-trivial = has init or goal components; distinct by text"

    def inputs(self, tier, seed):
        for o, i, g in itertools.product(c05.OBJECT_LISTS, c05.INITS, c05.GOALS):
            yield {"text": c05._problem_text(o, i, g)}
        if tier == "thorough":
            import random
            for t in c05.random_problems(random.Random(seed + 9), 1500):
                yield {"text": t}

    def nontrivial_key(self, inp):
        return inp["text"] if "(p " in inp["text"] or "(= " in inp["text"] else None

    def check(self, inp):
        dom = RA.parse_domain_text(c05.DOMAIN)
        p = RA.outcome(RA.parse_problem_text, inp["text"], dom)
        if p[0] != "ok":
            return []
        self.cases += 1
        return roundtrip(dom, p[1])


def shipped_pairs():
    """(domain file, problem file) pairs under /repo/tests that the parsers accept."""
    import logging
    root = Path(os.environ.get("PYVC_REPO", "/repo")) / "tests"
    files = sorted(root.rglob("*.pddl"))
    doms, probs = [], []
    for f in files:
        try:
            head = " ".join(SX.lex(f.read_text(errors="ignore"))[:6])
        except Exception:
            continue
        if "( define ( domain" in head:
            doms.append(f)
        elif "( define ( problem" in head:
            probs.append(f)
    return doms, probs


class ShippedProblems(Harness):
    name = "c09-shipped"
    prop = "C09"
    functions = ("ProblemExporter.extract_problem", "ProblemParser.parse_problem")
    bound = {"quick": "every problem file under /repo/tests paired with the shipped domain of the same name it parses against", "thorough": "same"}
    rule = "(domain file, problem file) pairs accepted by the parsers; all non-trivial"
    exhaustive = True

    def inputs(self, tier, seed):
        from pddl_plus_parser.lisp_parsers import DomainParser, ProblemParser
        doms, probs = shipped_pairs()
        parsed = {}
        for d in doms:
            r = RA.outcome(lambda: DomainParser(d).parse_domain())
            if r[0] == "ok":
                parsed.setdefault(getattr(r[1], "name", None), []).append(d)
        for p in probs:
            toks = SX.lex(p.read_text(errors="ignore"))
            try:
                dn = toks[toks.index(":domain") + 1]
            except ValueError:
                continue
            for d in parsed.get(dn, [])[:1]:
                yield {"domain": str(d), "problem": str(p)}

    def check(self, inp):
        from pddl_plus_parser.lisp_parsers import DomainParser, ProblemParser
        dom = DomainParser(Path(inp["domain"])).parse_domain()
        p = RA.outcome(lambda: ProblemParser(Path(inp["problem"]), dom).parse_problem())
        if p[0] != "ok":
            return []
        self.cases += 1
        return roundtrip(dom, p[1])


HARNESSES = [ProblemRoundTrip(), ShippedProblems()]
