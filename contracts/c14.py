"""C14 — states behave as values: ==, copy and serialization agree (bounded: all pairs of states of a small universe)."""
import itertools
import random
from pyvc.bounded import Harness, Failure
from spec import pddl_sem as PS, semantics as SEM, gen as G, repo_api as RA, sexp as SX, views as V

CONTRACTS = {}
LEVEL = "other"
EXPLANATION = ("bounded stand-in: for all pairs of states over a small universe (5 ground atoms, fluents incl. one with a repeated argument and "
               "a ternary one) built in different insertion orders: a == b exactly when facts and fluent values coincide; copy() is equal and "
               "independent; serialize() read back by the trajectory parser gives an equal state (hence unequal states never serialize alike).")
TRUSTED = ["spec/views.py:v_state (facts as (name, argument list), fluents as {(name, argument list): value})"]
ASSUMPTIONS = ["bounded: 32 fact sets x 12 fluent valuations; values {0, 1.5, -2}; '0' vs '0.0' printing treated as the same value"]

DOM14 = """(define (domain s14) (:requirements :typing :fluents)
(:types b - a a - object)
(:predicates (p ?x - a) (r ?x - a ?y - a) (g))
(:functions (f ?x - a) (d ?x - a ?y - a) (t ?x - a ?y - a ?z - a))
(:action noop :parameters () :precondition (and (g)) :effect (and (g))))"""
ATOMS = [("p", ("o1",)), ("p", ("o2",)), ("r", ("o1", "o2")), ("r", ("o2", "o1")), ("g", ())]
FLUENT_CHOICES = [
    {}, {("f", ("o1",)): 0.0}, {("f", ("o1",)): 1.5}, {("f", ("o1",)): 1.5, ("f", ("o2",)): 1.5},
    {("d", ("o1", "o1")): 2.0}, {("d", ("o1", "o2")): 2.0}, {("d", ("o1", "o1")): 2.0, ("d", ("o1", "o2")): -2.0},
    {("f", ("o2",)): 1.5}, {("d", ("o2", "o1")): 2.0}, {("f", ("o1",)): -2.0, ("d", ("o1", "o1")): 0.0},
    {("t", ("o1", "o2", "o1")): 1.0}, {("t", ("o1", "o1", "o2")): 1.0},
]


def _domain():
    return RA.parse_domain_text(DOM14)


def _states():
    for n in range(len(ATOMS) + 1):
        for fs in itertools.combinations(ATOMS, n):
            for fl in FLUENT_CHOICES:
                yield frozenset(fs), fl


def _build(dom, facts, fluents, reverse=False):
    fs = sorted(facts)
    fl = sorted(fluents.items())
    if reverse:
        fs, fl = list(reversed(fs)), list(reversed(fl))
    st = RA.make_state(dom, fs, dict(fl))
    if reverse:
        # states reached through delete effects keep empty buckets: they carry no fact
        for name, lifted in dom.predicates.items():
            st.state_predicates.setdefault(lifted.untyped_representation, set())
    return st


def _collides(fluents):
    """fluent keys whose printed text cannot carry the argument order (non-adjacent repeat): the known representation defect"""
    return any(len(a) == 3 and len(set(a)) < 3 for (_, a) in fluents)


class StatePairs(Harness):
    name = "c14-pairs"
    prop = "C14"
    shards = 8
    functions = ("State.__eq__", "State.copy", "State.serialize", "GroundedPredicate.copy", "GroundedPredicate.untyped_representation",
                 "PDDLFunction.copy", "PDDLFunction.state_representation", "TrajectoryParser.parse_state")
    bound = {"quick": "384 states (32 fact sets x 12 fluent valuations); == on every state against a 48-state sample of others in both insertion orders (18,432 ordered pairs); copy independence and serialize/read-back on every state",
             "thorough": "all 147,456 ordered pairs"}
    rule = "state enumeration; non-trivial = non-empty state; distinct by (facts, fluents)"

    def inputs(self, tier, seed):
        for i, (fs, fl) in enumerate(_states()):
            yield {"i": i, "tier": tier}

    def nontrivial_key(self, inp):
        return inp["i"] if inp["i"] else None

    def check(self, inp):
        from pddl_plus_parser.lisp_parsers import TrajectoryParser, PDDLTokenizer
        dom = _domain()
        allst = list(_states())
        facts, fluents = allst[inp["i"]]
        s = _build(dom, facts, fluents)
        out = []
        rnd = random.Random(inp["i"])
        others = allst if inp.get("tier") == "thorough" else [allst[inp["i"]]] + rnd.sample(allst, 47)
        for of, ol in others:
            for rev in (False, True):
                o = _build(dom, of, ol, reverse=rev)
                exp = (of == facts and ol == fluents)
                got = RA.outcome(lambda: s == o)
                self.cases += 1
                if got != ("ok", exp):
                    cls = "fluent-argument-order-lost" if (_collides(fluents) and _collides(ol) and of == facts) else None
                    out.append(Failure(clause="a == b exactly when same ground facts and same fluents with the same values, whatever the build order",
                                       expected=exp, observed=got, cls=cls,
                                       input={"a": [sorted(map(list, facts)), {str(k): v for k, v in fluents.items()}], "b": [sorted(map(list, of)), {str(k): v for k, v in ol.items()}], "reversed": rev}))
                    break
        # copy: equal, independent — for the state as parsed and for the variant that carries empty buckets (states reached through deletes)
        for s in (s, _build(dom, facts, fluents, reverse=True)):
            c = s.copy()
            self.cases += 1
            if not (c == s) or V.v_state(c) != V.v_state(s):
                out.append(Failure(clause="copy() equals the original", expected=str(V.v_state(s)), observed=str(V.v_state(c))))
            before = V.v_state(s)
            from pddl_plus_parser.models import GroundedPredicate as _GP
            for bucket in c.state_predicates.values():
                # growing a bucket of the copy (also one that was empty when copied: successor states are built this way)
                bucket.add(_GP(name="zz-added", signature={}, object_mapping={}))
            if V.v_state(s) != before:
                out.append(Failure(clause="adding a fact to a bucket of the copy (also an empty one) leaves the original unchanged",
                                   expected=str(before), observed=str(V.v_state(s)), cls=None))
            for bucket in c.state_predicates.values():
                for g in list(bucket):
                    g.is_positive = False      # attribute assignments the library itself performs on copies
                    g.name = "renamed"
                bucket.clear()
            c.state_predicates["(new )"] = set()
            for f in c.state_fluents.values():
                f.set_value(99.0)
            c.state_fluents.clear()
            c.is_init = not c.is_init
            if V.v_state(s) != before:
                out.append(Failure(clause="mutating a copy (its dicts, buckets, member literals, fluent objects) leaves the original unchanged",
                                   expected=str(before), observed=str(V.v_state(s)),
                                   cls=None))
        s = _build(dom, facts, fluents)
        # serialization round trip
        txt = s.serialize()
        r = RA.outcome(lambda: TrajectoryParser(dom).parse_state(PDDLTokenizer(pddl_str=txt).parse()[1:]))
        self.cases += 1
        if r[0] != "ok":
            out.append(Failure(clause="serialize() text is readable by the trajectory parser", expected="state", observed=(txt, r)))
        else:
            back = V.v_state(r[1])
            if not SEM.states_equal(back, (facts, fluents)) or not (r[1] == s):
                out.append(Failure(clause="serialize() read back gives an equal state (so unequal states never serialize alike)",
                                   expected=str((sorted(facts), fluents)), observed=str((sorted(back[0]), back[1])),
                                   cls="fluent-argument-order-lost" if _collides(fluents) else None,
                                   input={"facts": sorted(map(list, facts)), "fluents": {str(k): v for k, v in fluents.items()}, "text": txt}))
        return out[:4]


HARNESSES = [StatePairs()]

# ---- deductive contracts: a copy is a fresh, separate object graph carrying the same value -------------------------------------
# (the dictionaries `signature` / `object_mapping` of a fact are shared between a fact and its copy: the library never writes them
#  through a state; what states are mutated through — buckets and stored fluent values — is separate, which is what is proved.)
_GP = ("ref", "GroundedPredicate")
_ST = ("ref", "State")
_SP, _RP = "self.state_predicates", "result.state_predicates"
_SF, _RF = "self.state_fluents", "result.state_fluents"
_BK = "seq({d}[{d}.keys()[i]])"
from contracts.c07 import CONTRACTS as _C07_CONTRACTS
CONTRACTS["models.pddl_function:PDDLFunction.copy"] = dict(_C07_CONTRACTS["models.pddl_function:PDDLFunction.copy"], prop="C07")
CONTRACTS["models.pddl_predicate:GroundedPredicate.copy"] = dict(
    prop="C14", params={"self": _GP, "is_negated": "bool"},
    returns=_GP,
    ensures=["fresh(result)", "result != self", "result.name == self.name", "result.signature == self.signature",
             "result.object_mapping == self.object_mapping", "result.is_positive == (self.is_positive != is_negated)",
             "result.is_masked == False"],
    raises={}, modifies=[])
# representation invariant of a state object (a Python object graph): existing objects, dictionaries with pairwise distinct keys
STATE_WF = ["allocated(self)", f"allocated({_SP})", f"allocated({_SF})",
            f"forall_int(lambda i: forall_int(lambda j: implies(i != j, {_SP}.keys()[i] != {_SP}.keys()[j]), 0, len({_SP}.keys())), 0, len({_SP}.keys()))",
            f"forall_int(lambda i: forall_int(lambda j: implies(i != j, {_SF}.keys()[i] != {_SF}.keys()[j]), 0, len({_SF}.keys())), 0, len({_SF}.keys()))",
            f"forall_int(lambda i: allocated({_SP}[{_SP}.keys()[i]]), 0, len({_SP}.keys()))"]
# same_content(result, self): the value-level relation between a state and its copy
SAME_CONTENT = [
    "result.is_init == self.is_init",
    # same keys in the same order
    f"{_RP}.keys() == {_SP}.keys()", f"{_RF}.keys() == {_SF}.keys()",
    # every bucket has as many members, and member by member the same fact
    f"forall_int(lambda i: len({_BK.format(d=_RP)}) == len({_BK.format(d=_SP)}), 0, len({_SP}.keys()))",
    f"forall_int(lambda i: forall_int(lambda j: "
    f"{_BK.format(d=_RP)}[j].name == {_BK.format(d=_SP)}[j].name and {_BK.format(d=_RP)}[j].is_positive == {_BK.format(d=_SP)}[j].is_positive and "
    f"{_BK.format(d=_RP)}[j].signature == {_BK.format(d=_SP)}[j].signature and {_BK.format(d=_RP)}[j].object_mapping == {_BK.format(d=_SP)}[j].object_mapping, "
    f"0, len({_BK.format(d=_SP)})), 0, len({_SP}.keys()))",
    # every fluent has the same name, parameters and value
    f"forall_int(lambda i: {_RF}[{_RF}.keys()[i]].name == {_SF}[{_SF}.keys()[i]].name and "
    f"{_RF}[{_RF}.keys()[i]].stored_value == {_SF}[{_SF}.keys()[i]].stored_value and {_RF}[{_RF}.keys()[i]].signature == {_SF}[{_SF}.keys()[i]].signature and "
    f"{_RF}[{_RF}.keys()[i]].repeating_variables == {_SF}[{_SF}.keys()[i]].repeating_variables, 0, len({_SF}.keys()))",
]


def _h_same_content(interp, st, a):
    import z3
    from pyvc.core import Val
    env = {"result": a[0], "self": a[1]}
    return Val(z3.And(*[interp.truthy(interp.eval_spec(c, st, st.ghost.get("__old__"), env)) for c in SAME_CONTENT]), "bool")


def _h_same_content_opaque(interp, st, a):
    # for callers that only pass the relation on: an uninterpreted symbol (its definition is SAME_CONTENT, proved for State.copy here)
    import z3
    from pyvc.core import Val
    return Val(z3.Function("same_content", z3.IntSort(), z3.IntSort(), z3.BoolSort())(a[0].t, a[1].t), "bool")


HOOKS_EXPANDED = {"same_content": _h_same_content}
HOOKS_OPAQUE = {"same_content": _h_same_content_opaque}
CONTRACTS["models.pddl_state:State.copy"] = dict(
    prop="C14", shards=4, params={"self": _ST}, returns=_ST,
    requires=STATE_WF,
    ensures=[
        # a new state object with new dictionaries
        "fresh(result)", f"fresh({_RP})", f"fresh({_RF})", f"{_RP} != {_RF}",
        # every bucket is a new set holding new fact objects; every fluent is a new object
        f"forall_int(lambda i: fresh({_RP}[{_RP}.keys()[i]]), 0, len({_SP}.keys()))",
        f"forall_int(lambda i: forall_int(lambda j: fresh({_BK.format(d=_RP)}[j]), 0, len({_BK.format(d=_SP)})), 0, len({_SP}.keys()))",
        f"forall_int(lambda i: fresh({_RF}[{_RF}.keys()[i]]), 0, len({_SF}.keys()))",
        # buckets of different keys are different objects, fluents of different keys are different objects
        f"forall_int(lambda i: forall_int(lambda j: implies(i != j, {_RP}[{_RP}.keys()[i]] != {_RP}[{_RP}.keys()[j]]), 0, len({_SP}.keys())), 0, len({_SP}.keys()))",
        f"forall_int(lambda i: forall_int(lambda j: implies(i != j, {_RF}[{_RF}.keys()[i]] != {_RF}[{_RF}.keys()[j]]), 0, len({_SF}.keys())), 0, len({_SF}.keys()))",
        # ... carrying the same value (SAME_CONTENT, clause by clause, and as the named relation other contracts refer to)
        "same_content(result, self)",
    ] + SAME_CONTENT,
    spec_hooks=HOOKS_EXPANDED,
    raises={}, modifies=[],
    calls={"GroundedPredicate.copy": "models.pddl_predicate:GroundedPredicate.copy", "PDDLFunction.copy": "models.pddl_function:PDDLFunction.copy"})
