"""C01 — domain text is parsed faithfully or rejected.  Bounded differential: view(parse(text)) == sem(text) for generated
domains; unrepresentable forms must raise at parse time or at first grounding/evaluation."""
import itertools
import random
from pyvc.bounded import Harness, Failure
from spec import pddl_sem as PS, semantics as SEM, gen as G, repo_api as RA, sexp as SX, views as V

CONTRACTS = {}
LEVEL = "other"
EXPLANATION = ("bounded stand-in: the parsed Domain's view (types, constants, predicates, functions, ordered typed parameters, precondition "
               "formula, effect list) is compared with an independent reading of the same text for generated domains; forms outside the "
               "representable fragment must raise when parsed or when the action is first grounded/evaluated.")
TRUSTED = ["spec/pddl_sem.py (independent reader: sem_domain, sem_pre, sem_eff, sem_typed_list)", "spec/views.py (reads public attributes only)"]
ASSUMPTIONS = ["bounded: bodies from spec/gen.py plus hand-listed layouts, signatures and unsupported forms",
               "the assumed contract of parse_signature that parse_functions / _parse_predicate are checked against only labels the returned "
               "fresh dictionary with the token list it was parsed from (ghost function sig_src); WHICH parameters the dictionary holds and "
               "with which type objects is proved on the real body (contract parse_signature@members: exactly the written names, typed names "
               "with the registered object of the declared type, untyped ones with the default type, SyntaxError for a name without '?'); "
               "the ORDER of the parameters is not proved (contract parse_signature@proved stays undischarged) and rests on the bounded stand-in"]


def _norm_domain(d):
    out = dict(d)
    out["actions"] = {n: {"name": a["name"], "params": list(a["params"]), "pre": PS.norm(a["pre"]), "eff": PS.norm_effects(a["eff"])}
                      for n, a in d["actions"].items()}
    out["constants"] = sorted(d["constants"])
    return out


def _first_use_raises(dom):
    """Ground and evaluate every action once on an empty state with the generator's objects: does any raise?"""
    from pddl_plus_parser.models import Operator, PDDLObject
    objs = {n: PDDLObject(n, dom.types[t]) for n, t in G.OBJECTS.items() if t in dom.types}
    st = RA.make_state(dom, [], {})
    for a in dom.actions.values():
        args = (list(objs) * 3)[:len(a.signature)]
        op = Operator(a, dom, args, problem_objects=objs)
        r = RA.outcome(op.apply, st, allow_inapplicable_actions=True)
        if r[0] == "exc":
            return True
    return False


def compare_domain(text, must_accept=True):
    """Failures for one domain text.  must_accept=False: the text is at the edge of the fragment, where a loud
    rejection is one of the two outcomes the property allows (faithful or exception)."""
    try:
        ast_ = SX.read_text(text)
    except SX.Reject:
        return []
    try:
        exp = PS.sem_domain(ast_)
        why = None
    except PS.Unrepresentable as ex:
        exp, why = None, f"unrepresentable: {ex}"
    except PS.Malformed as ex:
        exp, why = None, f"malformed: {ex}"
    got = RA.outcome(RA.parse_domain_text, text)
    if exp is None:
        if got[0] == "exc":
            return []
        if _first_use_raises(got[1]):
            return []
        cls = "repeated-argument" if why and "repeated-argument" in why else None
        return [Failure(clause=f"a construct the library cannot represent raises at parse time or at first grounding ({why})",
                        expected="exception", observed=str(_norm_domain(V.v_domain(got[1]))["actions"])[:500], cls=cls)]
    if got[0] != "ok":
        if not must_accept:
            return []
        return [Failure(clause="a domain of the supported fragment is accepted", expected="domain", observed=got)]
    v = _norm_domain(V.v_domain(got[1]))
    e = _norm_domain(exp)
    out = []
    for key in ("name", "types", "constants", "predicates", "functions"):
        if v[key] != e[key]:
            out.append(Failure(clause=f"parsed {key} == declared {key}", expected=str(e[key]), observed=str(v[key])))
    # the whole type tree: every type's ancestor chain through parent links is the declared chain up to object
    chains = V.v_type_chains(got[1].types)
    for n in e["types"]:
        want, y = [n], n
        while y != "object" and len(want) < 50:
            y = e["types"].get(y, "object")
            want.append(y)
        if chains.get(n) != want:
            out.append(Failure(clause="parsed type tree: ancestor chain of each type == declared chain", expected=want, observed=chains.get(n)))
            break
    if set(v["actions"]) != set(e["actions"]):
        out.append(Failure(clause="parsed action names == declared", expected=sorted(e["actions"]), observed=sorted(v["actions"])))
    for n in e["actions"]:
        if n not in v["actions"]:
            continue
        for part in ("params", "pre", "eff"):
            if v["actions"][n][part] != e["actions"][n][part]:
                out.append(Failure(clause=f"action {n}: parsed {part} denotes the same as written", expected=str(e["actions"][n][part]), observed=str(v["actions"][n][part])))
    return out[:4]


UNSUPPORTED_PRE = ["(p ?x)", "(not (p ?x))", "(g)", "(not (= ?x ?y))", "(= ?x ?y)", "(r ?x ?y)", "(and (imply (p ?x) (q ?y)))",
                   "(and (exists (?z - a) (p ?z)))", "(and (p ?x) (imply (g) (q ?y)) (q ?y))", "(and (undeclared ?x))",
                   "(and (not (undeclared ?x)))", "(and (p ?x) (undeclared ?x) (q ?y))", "(and (r ?x ?x))", "(and (not (r ?y ?y)))",
                   "(and (>= (+ (f ?x) 1 2) 0))", "(and (not (and (p ?x) (q ?y))))", "(or (p ?x) (q ?y))", "(forall (?z - a) (and (p ?z)))",
                   "(and (forall (?z - a) (p ?z)))", "(and (forall (?z ?w - a) (and (r ?z ?w))))", "(and (p ?x ?y))", "(and (r ?x))",
                   "(and (>= (f ?x ?y) 1))", "(and (not (>= (f ?x) 1)))", "(and (when (p ?x) (q ?y)))", "()", "(and (p ?x) ?y)",
                   "(and (= (f ?x) (f ?y)))", "(and (= ?x k))"]
UNSUPPORTED_EFF = ["(p ?x)", "(not (p ?x))", "(and (scale-up (c) 2))", "(and (p ?x) (scale-down (f ?x) 2) (q ?y))", "(and (undeclared ?x))",
                   "(and (not (undeclared ?x)))", "(and (r ?x ?x))", "(and (forall (?z - a) (and (q ?z) (p ?z))))", "(and (forall (?z - a) (p ?z)))",
                   "(and (forall (?z - a) (when (and (p ?z)) (q ?z) )))", "(and (when (and (p ?x)) (and (q ?y) (when (and (g)) (p ?y)))))",
                   "(and (increase (c) (+ 1 2 3)))", "(and (assign (f ?x ?y) 1))", "(and (and (p ?x) (q ?y)))", "(and (p ?x ?y))",
                   "(and (when (and (imply (g) (p ?x))) (q ?y)))", "(and (when (and (p ?x) (undeclared ?y) (q ?y)) (g)))", "(and)",
                   "(and (increase (f ?x) (f ?x)) (p ?y))", "(and (when (p ?x) (q ?y)))", "(and (forall (?z - b) (when (s ?z) (not (s ?z)))))"]
SIGNATURES = ["?x - a ?y - a", "?x ?y - a", "?x - b ?y - a", "?x - a ?y", "?x ?y", "?x - a ?y - b ?w - object", ""]


class DomainFidelity(Harness):
    name = "c01-fidelity"
    prop = "C01"
    shards = 8
    functions = ("DomainParser.parse_domain", "DomainParser.parse_action", "DomainParser.parse_preconditions", "PreconditionsParser.parse",
                 "EffectsParser.parse", "EffectsParser.parse_conditional_effect", "EffectsParser.parse_universally_quantified_effect",
                 "parse_signature", "parse_untyped_predicate", "construct_expression_tree", "DomainParser.parse_types",
                 "DomainParser.parse_constants", "DomainParser.parse_predicates", "DomainParser.parse_functions")
    bound = {"quick": "every formulas(1) body as precondition and every effect_bodies(1) body as effect (one action each), with and without the constant k; 29 precondition and 21 effect forms at or beyond the edge of the fragment; 7 parameter-list shapes; 6 layout/comment/case renderings of one reference domain; two-action domains",
             "thorough": "formulas(2) / effect_bodies(2)"}
    rule = "one domain text per input; non-trivial = body contains an operator; distinct by text"

    def inputs(self, tier, seed):
        lvl = 1 if tier == "quick" else 2
        for f in G.formulas(lvl):
            yield {"text": G.domain_text([("act", "?x - a ?y - a", f, "(and (g))")])}
        for f in G.const_formulas():
            yield {"text": G.domain_text([("act", "?x - a ?y - a", f, "(and (p k))")], with_const=True)}
        for e in G.effect_bodies(lvl):
            yield {"text": G.domain_text([("act", "?x - a ?y - a", "(and (p ?x))", e)])}
        for f in UNSUPPORTED_PRE:
            yield {"text": G.domain_text([("act", "?x - a ?y - a", f, "(and (g))")], with_const=True), "must_accept": False}
        for e in UNSUPPORTED_EFF:
            yield {"text": G.domain_text([("act", "?x - a ?y - a", "(and (g))", e)]), "must_accept": False}
        for sig in SIGNATURES:
            body = "(and (g))"
            yield {"text": G.domain_text([("act", sig, body, "(and (g))")])}
        ref = G.domain_text([("first", "?x - a ?y - a", "(and (p ?x) (or (q ?y) (not (r ?x ?y))))", "(and (not (p ?x)) (when (and (g)) (q ?y)))"),
                             ("second", "?x - b", "(and (s ?x) (>= (f ?x) 1))", "(and (increase (c) (f ?x)))")], with_const=True)
        yield {"text": ref}
        yield {"text": ref.upper()}
        yield {"text": ref.replace("\n", "\r\n")}
        yield {"text": ref.replace(" ", "\t")}
        yield {"text": "; header comment (with parens)\n" + ref.replace("\n", " ; c\n")}
        yield {"text": " ".join(ref.split())}
        # section order: action sections permuted
        yield {"text": G.HEADER.format(consts="") + "(:action act :effect (and (g)) :parameters (?x - a) :precondition (and (p ?x))))", "must_accept": False}
        yield {"text": G.HEADER.format(consts="") + "(:action act :parameters (?x - a) :effect (and (g))))", "must_accept": False}
        # predicates / functions declarations
        for tdecl in ["c - b b - a a - object", "a - object b - a c - b", "c - b d - c b - a", "d - c c - b b - a a - object", "b c - a d - c", "d - c b c - a", "c - b b - a e"]:
            yield {"text": f"(define (domain gen) (:requirements :typing) (:types {tdecl}) (:predicates (g) (p ?x - c)) (:action act :parameters (?x - c) :precondition (and (p ?x)) :effect (and (g))))"}
        for decl in ["(:predicates (p ?x ?y - a) (g))", "(:predicates (p ?x) (q ?y - a))", "(:predicates (p ?x - a ?y))", "(:predicates (p x - a))",
                     "(:predicates (:private (p ?x - a)) (g))"]:
            yield {"text": f"(define (domain gen) (:requirements :typing) (:types b - a a - object) {decl} (:action act :parameters () :precondition (and (g)) :effect (and (g))))"}
        for decl in ["(:functions (f ?x - a) (c))", "(:functions (f ?x ?y - a))", "(:functions (f ?x))", "(:functions (f ?x - a) - number)"]:
            yield {"text": f"(define (domain gen) (:requirements :typing) (:types b - a a - object) (:predicates (g)) {decl} (:action act :parameters () :precondition (and (g)) :effect (and (g))))", "must_accept": decl == "(:functions (f ?x - a) (c))"}
        # long declaration lists (every member must be registered, also the ones after a private group / late in the list)
        many_p = " ".join(f"(p{i} ?x - a)" for i in range(9))
        many_f = " ".join(f"(f{i} ?x - a)" for i in range(9))
        for decl in [f"(:predicates (g) {many_p})", "(:predicates (g) (p0 ?x - a) (:private (p1 ?x - a) (p2 ?y - b ?x - a) (p3)) (p4 ?x - a) (:private (p5 ?x - a)) (p6 ?x - b))",
                     f"(:predicates (g)) (:functions {many_f})", f"(:predicates (g) {many_p}) (:functions (c) {many_f} (d ?x - a ?y - b))"]:
            yield {"text": f"(define (domain gen) (:requirements :typing) (:types b - a a - object) {decl} (:action act :parameters () :precondition (and (g)) :effect (and (g))))"}
        for decl in ["(:constants k - a j - b)", "(:constants k j - a)", "(:constants k - a j)", "(:constants k)", "(:constants k - zz)"]:
            yield {"text": f"(define (domain gen) (:requirements :typing) (:types b - a a - object) {decl} (:predicates (g)) (:action act :parameters () :precondition (and (g)) :effect (and (g))))"}

    def nontrivial_key(self, inp):
        return inp["text"]

    def check(self, inp):
        self.cases += 1
        return compare_domain(inp["text"], inp.get("must_accept", True))


HARNESSES = [DomainFidelity()]

# ---- deductive: DomainParser.parse_preconditions hands the WHOLE body to the recursive-descent parser -----------------------------
import z3
from pyvc.core import Val
from pyvc.sorts import SExp, SList, I, B, sfirst, srest
DP = "lisp_parsers.domain_parser:DomainParser."
PPK = "lisp_parsers.preconditions_parser:PreconditionsParser.parse"
# pre_sem(root, asts): the formula held by `root` is the conjunction of the formulas written in `asts` (established bounded by c01-fidelity)
_pre_sem = z3.Function("pre_sem", I, SList, B)


def _h_pre_sem(interp, st, a):
    return Val(_pre_sem(a[0].t, interp.coerce(a[1], "slist").t), "bool")


def _h_conjuncts(interp, st, a):
    """the conjuncts of a precondition body: its items after 'and', or the body itself as the only conjunct (single literal, not, or, forall, ...)"""
    body = a[0].t
    items = SExp.items(body)
    is_and = z3.And(z3.Not(SList.is_Nil(items)), sfirst(items) == SExp.Atom(z3.StringVal("and")))
    return Val(z3.If(is_and, srest(items), SList.Snoc(SList.Nil, body)), "slist")


_C01_HOOKS = {"pre_sem": _h_pre_sem, "conjuncts": _h_conjuncts}
_OPQ = ("ref", "opaque")
CONTRACTS[PPK] = dict(
    prop="C01", assumed=True,
    params={"self": ("ref", "PreconditionsParser"), "precondition_root": ("ref", "Precondition"), "preconditions_ast": "slist", "domain_functions": _OPQ,
            "domain_predicates": _OPQ, "domain_types": _OPQ, "domain_constants": _OPQ, "action_signature": _OPQ},
    returns=("ref", "Precondition"), returns_optional=True,
    ensures=["pre_sem(precondition_root, preconditions_ast)"], raises={"SyntaxError": "True", "KeyError": "True", "TypeError": "True", "IndexError": "True", "ValueError": "True"},
    modifies=["Precondition.operands[precondition_root]", "Precondition.equality_preconditions[precondition_root]",
              "Precondition.inequality_preconditions[precondition_root]"], spec_hooks=_C01_HOOKS)
CONTRACTS[DP + "parse_preconditions"] = dict(
    prop="C01",
    params={"self": ("ref", "DomainParser"), "preconditions_ast": "sexp", "new_action": ("ref", "Action"), "domain_functions": _OPQ,
            "domain_predicates": _OPQ, "domain_types": _OPQ, "domain_constants": _OPQ},
    locals={"conjuncts": "slist", "action_preconditions": ("ref", "CompoundPrecondition")}, returns="none",
    requires=["is_list(preconditions_ast)"],
    ensures=[
        # an empty body () is the true precondition: the action keeps its (empty) precondition
        "implies(len(preconditions_ast) == 0, new_action.preconditions == old(new_action.preconditions))",
        # otherwise the action's precondition is a fresh conjunction holding exactly the conjuncts of the WHOLE body as written —
        # the body of an 'and', or the body itself when it is a single condition such as (p ?x) or (not (p ?x))
        "implies(len(preconditions_ast) > 0, fresh(new_action.preconditions) and fresh(new_action.preconditions.root) and "
        "new_action.preconditions.root.binary_operator == 'and' and pre_sem(new_action.preconditions.root, conjuncts(preconditions_ast)))"],
    raises={"SyntaxError": "True", "KeyError": "True", "TypeError": "True", "IndexError": "True", "ValueError": "True"},
    modifies=["Action.preconditions[new_action]"],
    calls={"PreconditionsParser.parse": PPK},
    spec_hooks=dict(_C01_HOOKS, is_list=lambda interp, st, a: Val(SExp.is_Lst(a[0].t), "bool")))

# ---- deductive: parse_functions registers every declared function under its own name with the signature parsed from its own list ------
# Relative to the assumed contract of parse_signature (`sig_src(d)` names the token list a signature object was parsed from; bounded
# by the c01 harnesses).  Specification = a left-to-right fold over the items of the :functions section (a later declaration of the
# same name replaces the earlier one).
from pyvc.sorts import OPAQUE_FUNCS as _OPQ, S as _S
_snth, _slen, _srest1, _sfirst1 = _OPQ["snth"], _OPQ["slen"], _OPQ["srest"], _OPQ["sfirst"]
fn_has = z3.RecFunction("fn_has", SList, _S, I, B)
fn_src = z3.RecFunction("fn_src", SList, _S, I, SList)
_fl, _fk, _fi = z3.Const("fn_l", SList), z3.Const("fn_k", _S), z3.Int("fn_i")
_item = _snth(_fl, _fi - 1)
_head_is = _sfirst1(SExp.items(_item)) == SExp.Atom(_fk)
from pyvc.sorts import rec_define
rec_define(fn_has, [_fl, _fk, _fi], z3.If(_fi <= 0, False, z3.Or(_head_is, fn_has(_fl, _fk, _fi - 1))))
rec_define(fn_src, [_fl, _fk, _fi], z3.If(_fi <= 0, SList.Nil, z3.If(_head_is, _srest1(SExp.items(_item)), fn_src(_fl, _fk, _fi - 1))))
_sig_src = z3.Function("sig_src", I, SList)
FN_HOOKS = {
    "fn_has": lambda interp, st, a: Val(fn_has(a[0].t, a[1].t, a[2].t), "bool"),
    "fn_src": lambda interp, st, a: Val(fn_src(a[0].t, a[1].t, a[2].t), "slist"),
    "sig_src": lambda interp, st, a: Val(_sig_src(a[0].t), "slist"),
    "is_list": lambda interp, st, a: Val(SExp.is_Lst(a[0].t), "bool"),
    "is_atom": lambda interp, st, a: Val(SExp.is_Atom(a[0].t), "bool"),
    "items": lambda interp, st, a: Val(SExp.items(a[0].t), "slist"),
    "nonempty": lambda interp, st, a: Val(z3.Not(SList.is_Nil(a[0].t)), "bool"),
}
_ANYERR = {"SyntaxError": "True", "KeyError": "True", "StopIteration": "True", "IndexError": "True", "TypeError": "True", "ValueError": "True"}
CONTRACTS["lisp_parsers.parsing_utils:parse_signature"] = dict(
    prop="C01", assumed=True, params={"parameters": "slist", "domain_types": ("ref", "dict_PDDLType")}, returns=("ref", "dict_str_ref"),
    ensures=["fresh(result)", "sig_src(result) == parameters"], raises=dict(_ANYERR), modifies=[], spec_hooks=FN_HOOKS)
_FN = "slen(functions_ast)"
_WF_ITEMS = ("forall_int(lambda j: is_list(snth({l}, j)) and nonempty(items(snth({l}, j))) and is_atom(sfirst(items(snth({l}, j)))), 0, slen({l}))")
CONTRACTS[DP + "parse_functions"] = dict(
    prop="C01", shards=3,
    params={"self": ("ref", "DomainParser"), "functions_ast": "slist", "domain_types": ("ref", "dict_PDDLType")},
    locals={"functions": ("ref", "dict_PDDLFunction"), "function_name": "str"},
    returns=("ref", "dict_PDDLFunction"), opaque_funcs=("snth", "slen", "sfirst", "srest"),
    axioms=["forall_slist(lambda l: slen(l) >= 0)"],
    # every item of the section is a non-empty parenthesised list whose first element is a name
    requires=["allocated(self)", "allocated(domain_types)", _WF_ITEMS.format(l="functions_ast")],
    ensures=[
        "fresh(result)",
        f"forall_str(lambda k: (k in result) == fn_has(functions_ast, k, {_FN}))",
        f"forall_str(lambda k: implies(k in result, fresh(result[k]) and result[k].name == k and fresh(result[k].signature) and "
        f"sig_src(result[k].signature) == fn_src(functions_ast, k, {_FN}) and result[k].stored_value == 0))"],
    raises=dict(_ANYERR), modifies=[],
    calls={"parse_signature": "lisp_parsers.parsing_utils:parse_signature"},
    loops={0: dict(invariants=[
        "fresh(functions)",
        "forall_str(lambda k: (k in functions) == fn_has(functions_ast, k, _i))",
        "forall_str(lambda k: implies(k in functions, fresh(functions[k]) and functions[k].name == k and fresh(functions[k].signature) and "
        "sig_src(functions[k].signature) == fn_src(functions_ast, k, _i) and functions[k].stored_value == 0))"],
        modifies=["dict_PDDLFunction.keys[functions]", "dict_PDDLFunction.map[functions]", "PDDLFunction.name", "PDDLFunction.signature",
                  "PDDLFunction.stored_value", "PDDLFunction.repeating_variables"])},
    spec_hooks=FN_HOOKS)

# ---- deductive: parse_predicates (with the `(:private ...)` grouping of multi-agent domains) -------------------------------------------
pr_has = z3.RecFunction("pr_has", SList, _S, I, B)
pr_src = z3.RecFunction("pr_src", SList, _S, I, SList)
_pitem = _snth(_fl, _fi - 1)
_phead = _sfirst1(SExp.items(_pitem))
_psub = _srest1(SExp.items(_pitem))
_is_priv = _phead == SExp.Atom(z3.StringVal(":private"))
rec_define(pr_has, [_fl, _fk, _fi], z3.If(_fi <= 0, False,
                    z3.If(_is_priv, z3.Or(pr_has(_fl, _fk, _fi - 1), fn_has(_psub, _fk, _slen(_psub))), z3.Or(pr_has(_fl, _fk, _fi - 1), _phead == SExp.Atom(_fk)))))
rec_define(pr_src, [_fl, _fk, _fi], z3.If(_fi <= 0, SList.Nil,
                    z3.If(_is_priv, z3.If(fn_has(_psub, _fk, _slen(_psub)), fn_src(_psub, _fk, _slen(_psub)), pr_src(_fl, _fk, _fi - 1)),
                          z3.If(_phead == SExp.Atom(_fk), _psub, pr_src(_fl, _fk, _fi - 1)))))
PR_HOOKS = dict(FN_HOOKS,
                pr_has=lambda interp, st, a: Val(pr_has(a[0].t, a[1].t, a[2].t), "bool"),
                pr_src=lambda interp, st, a: Val(pr_src(a[0].t, a[1].t, a[2].t), "slist"),
                atom=lambda interp, st, a: Val(SExp.s(a[0].t), "str"))
_PRED = ("ref", "Predicate")
CONTRACTS[DP + "_parse_predicate"] = dict(
    prop="C01", params={"self": ("ref", "DomainParser"), "predicate_ast": "slist", "domain_types": ("ref", "dict_PDDLType")}, returns=_PRED,
    opaque_funcs=("snth", "slen", "sfirst", "srest"),
    requires=["allocated(self)", "allocated(domain_types)", "nonempty(predicate_ast)", "is_atom(sfirst(predicate_ast))"],
    ensures=["fresh(result)", "result.name == atom(sfirst(predicate_ast))", "result.is_positive", "fresh(result.signature)",
             "sig_src(result.signature) == srest(predicate_ast)"],
    raises=dict(_ANYERR), modifies=[], calls={"parse_signature": "lisp_parsers.parsing_utils:parse_signature"}, spec_hooks=PR_HOOKS)
_PN = "slen(predicates_ast)"
_PVAL = ("fresh({d}[k]) and {d}[k].name == k and {d}[k].is_positive and fresh({d}[k].signature) and sig_src({d}[k].signature) == {src}")
_SUBL = "srest(items(predicate))"
CONTRACTS[DP + "parse_predicates"] = dict(
    prop="C01", shards=4,
    params={"self": ("ref", "DomainParser"), "predicates_ast": "slist", "domain_types": ("ref", "dict_PDDLType")},
    locals={"predicates": ("ref", "dict_Predicate"), "extracted_predicate": _PRED, "extracted_private_predicate": _PRED},
    returns=("ref", "dict_Predicate"), opaque_funcs=("snth", "slen", "sfirst", "srest"),
    axioms=["forall_slist(lambda l: slen(l) >= 0)"],
    # every item is a non-empty list headed by a name; the members of a (:private ...) group are such lists too
    requires=["allocated(self)", "allocated(domain_types)", _WF_ITEMS.format(l="predicates_ast"),
              "forall_int(lambda j: implies(sfirst(items(snth(predicates_ast, j))) == sexp_atom(':private'), "
              "forall_int(lambda m: is_list(snth(srest(items(snth(predicates_ast, j))), m)) and nonempty(items(snth(srest(items(snth(predicates_ast, j))), m))) "
              "and is_atom(sfirst(items(snth(srest(items(snth(predicates_ast, j))), m)))), 0, slen(srest(items(snth(predicates_ast, j)))))), 0, slen(predicates_ast))"],
    ensures=[
        "fresh(result)",
        f"forall_str(lambda k: (k in result) == pr_has(predicates_ast, k, {_PN}))",
        "forall_str(lambda k: implies(k in result, " + _PVAL.format(d="result", src=f"pr_src(predicates_ast, k, {_PN})") + "))"],
    raises=dict(_ANYERR), modifies=[],
    calls={"self._parse_predicate": DP + "_parse_predicate"},
    loops={
        0: dict(invariants=[
            "fresh(predicates)",
            "forall_str(lambda k: (k in predicates) == pr_has(predicates_ast, k, _i))",
            "forall_str(lambda k: implies(k in predicates, " + _PVAL.format(d="predicates", src="pr_src(predicates_ast, k, _i)") + "))"],
            modifies=["dict_Predicate.keys[predicates]", "dict_Predicate.map[predicates]", "Predicate.name", "Predicate.signature", "Predicate.is_positive"]),
        1: dict(invariants=[
            "fresh(predicates)",
            f"forall_str(lambda k: (k in predicates) == (pr_has(predicates_ast, k, _i0) or fn_has({_SUBL}, k, _i)))",
            "forall_str(lambda k: implies(k in predicates, " + _PVAL.format(
                d="predicates", src=f"(fn_src({_SUBL}, k, _i) if fn_has({_SUBL}, k, _i) else pr_src(predicates_ast, k, _i0))") + "))"],
            modifies=["dict_Predicate.keys[predicates]", "dict_Predicate.map[predicates]", "Predicate.name", "Predicate.signature", "Predicate.is_positive"])},
    spec_hooks=dict(PR_HOOKS, sexp_atom=lambda interp, st, a: Val(SExp.Atom(a[0].t), "sexp")))

# ---- deductive: parse_signature — ordered, typed parameters --------------------------------------------------------------------------
# sg_keys(t, i) / sg_pend(t, i): the parameter names that have received their type / are waiting for one after i tokens, IN ORDER
# (same left-to-right reading as tl_* of contracts/c06.py, which supply membership and the type names).
from contracts.c06 import tl_mark, tl_pend, tl_has, tl_type, TL_HOOKS as _TL_HOOKS
_SQS = z3.SeqSort(_S)
sg_keys = z3.RecFunction("sg_keys", _SQS, I, _SQS)
sg_pend = z3.RecFunction("sg_pend", _SQS, I, _SQS)
_st, _si = z3.Const("sg_t", _SQS), z3.Int("sg_i")
_DASHS = z3.StringVal("-")
rec_define(sg_pend, [_st, _si], z3.If(_si <= 0, z3.Empty(_SQS), z3.If(tl_mark(_st, _si - 1), z3.Empty(_SQS),
                    z3.If(_st[_si - 1] == _DASHS, sg_pend(_st, _si - 1), z3.Concat(sg_pend(_st, _si - 1), z3.Unit(_st[_si - 1]))))))
rec_define(sg_keys, [_st, _si], z3.If(_si <= 0, z3.Empty(_SQS), z3.If(tl_mark(_st, _si - 1), z3.Concat(sg_keys(_st, _si - 1), sg_pend(_st, _si - 1)),
                                                                              sg_keys(_st, _si - 1))))
SG_HOOKS = dict(_TL_HOOKS,
                sg_keys=lambda interp, st, a: Val(sg_keys(a[0].t, a[1].t), ("seq", "str")),
                sg_pend=lambda interp, st, a: Val(sg_pend(a[0].t, a[1].t), ("seq", "str")),
                cat=lambda interp, st, a: Val(z3.Concat(a[0].t, a[1].t), ("seq", "str")),
                prefix=lambda interp, st, a: Val(z3.SubSeq(a[0].t, 0, a[1].t), ("seq", "str")),
                qmark=lambda interp, st, a: Val(z3.PrefixOf(z3.StringVal("?"), a[0].t), "bool"))
_T = "iter_seq(parameters)"
_NT = f"len({_T})"
_ALLN = f"cat(sg_keys({_T}, {{i}}), sg_pend({_T}, {{i}}))"
_BADNAME = f"exists_int(lambda j: not tl_mark({_T}, j) and {_T}[j] != '-' and not qmark({_T}[j]), 0, {_NT})"
_EK = "at_loop_entry(signature.keys())"


def _same_seq(a, b):
    """sequence equality, stated position by position (that is how the loops establish it)"""
    return f"len({a}) == len({b}) and forall_int(lambda a_: {a}[a_] == {b}[a_], 0, len({b}))"


def _inner(value):
    # the inner loops append the waiting names, in order, behind the keys that were there when the loop was entered
    return dict(invariants=[
        "fresh(signature)",
        f"len(signature.keys()) == len({_EK}) + _i",
        f"forall_int(lambda a_: signature.keys()[a_] == {_EK}[a_], 0, len({_EK}))",
        f"forall_int(lambda a_: signature.keys()[len({_EK}) + a_] == grouped_params[a_], 0, _i)",
        # entries present at loop entry are kept, the new ones carry the group's type
        "forall_str(lambda s: implies(at_loop_entry(s in signature), s in signature and signature[s] is at_loop_entry(signature[s])))",
        f"forall_int(lambda a_: grouped_params[a_] in signature and signature[grouped_params[a_]] is {value}, 0, _i)",
        f"forall_str(lambda s: implies(s in signature, at_loop_entry(s in signature) or exists_int(lambda a_: grouped_params[a_] == s, 0, _i)))",
        # (fact about the loop entry) the old keys followed by the waiting names are pairwise distinct
        f"forall_int(lambda a_: forall_int(lambda b_: implies(a_ != b_, cat({_EK}, grouped_params)[a_] != cat({_EK}, grouped_params)[b_]), 0, "
        f"len({_EK}) + len(grouped_params)), 0, len({_EK}) + len(grouped_params))"],
        modifies=["dict_str_ref.keys[signature]", "dict_str_ref.map[signature]"])


# NOT DISCHARGED (kept for the record, not registered): the contract translates (three loops, iterator parameter, `next`), but the
# obligations that carry the ORDER of the keys — index-wise relations between the dictionary's key sequence, the waiting names and the
# recursively defined sequences sg_keys / sg_pend — stay `unknown` in the sequence theory of z3 and cvc5 (16 of 65 obligations).
# parse_signature therefore remains an ASSUMED callee of parse_functions / _parse_predicate and is covered by the bounded stand-in
# above (ordered typed parameters of every generated signature; seeded change C01-3 is reported by it).
CONTRACTS_NOT_DISCHARGED = {}
CONTRACTS_NOT_DISCHARGED["lisp_parsers.parsing_utils:parse_signature@proved"] = dict(
    prop="C01", shards=6,
    params={"parameters": ("iter", "str"), "domain_types": ("ref", "dict_PDDLType")},
    locals={"signature": ("ref", "dict_str_ref"), "grouped_params": ("seq", "str")},
    returns=("ref", "dict_str_ref"), dict_values={"dict_str_ref": "PDDLType"},
    globals={"ObjectType": ("ref", "PDDLType", "G_ObjectType")},
    requires=["iter_pos(parameters) == 0", "allocated(domain_types)",
              # parameter names are pairwise distinct (stated for every prefix of the list, which is how the proof uses it)
              "forall_int(lambda i: forall_int(lambda a: forall_int(lambda b: implies(a != b, " + _ALLN.format(i="i") + "[a] != " + _ALLN.format(i="i") + "[b]), 0, "
              "len(" + _ALLN.format(i="i") + ")), 0, len(" + _ALLN.format(i="i") + ")), 0, " + _NT + " + 1)"],
    ensures=[
        "fresh(result)",
        # the parameters in the order in which they are written
        _same_seq("result.keys()", _ALLN.format(i=_NT)),
        # each with the type object registered under its declared type name; parameters listed without a type get the default object type
        f"forall_str(lambda s: implies(tl_has({_T}, s, {_NT}) and not tl_pend({_T}, s, {_NT}), result[s] is domain_types[tl_type({_T}, s, {_NT})]))",
        f"forall_str(lambda s: implies(tl_pend({_T}, s, {_NT}), result[s] is ObjectType))"],
    raises={"SyntaxError": _BADNAME, "StopIteration": f"tl_mark({_T}, {_NT})", "KeyError": "True"},
    must_raise=[_BADNAME],
    modifies=[],
    loops={
        0: dict(invariants=[
            "fresh(signature)", f"not tl_mark({_T}, _i)",
            _same_seq("signature.keys()", f"sg_keys({_T}, _i)"), _same_seq("grouped_params", f"sg_pend({_T}, _i)"),
            f"forall_str(lambda s: (s in signature) == tl_has({_T}, s, _i))", f"forall_str(lambda s: (s in grouped_params) == tl_pend({_T}, s, _i))",
            f"forall_str(lambda s: implies(s in signature, signature[s] is domain_types[tl_type({_T}, s, _i)]))",
            f"forall_int(lambda j: implies(not tl_mark({_T}, j) and {_T}[j] != '-', qmark({_T}[j])), 0, _i)"],
            modifies=["dict_str_ref.keys[signature]", "dict_str_ref.map[signature]"]),
        1: _inner("domain_types[parameter_type]"),
        2: _inner("ObjectType")},
    spec_hooks=SG_HOOKS)


# ---- deductive: parse_signature — which parameters, with which types (the ORDER of the parameters is not part of this contract) ---------
def _inner_m(value):
    inpre = "s in prefix(grouped_params, _i)"
    return dict(invariants=[
        "fresh(signature)",
        f"forall_str(lambda s: (s in signature) == (at_loop_entry(s in signature) or {inpre}))",
        f"forall_str(lambda s: implies({inpre}, signature[s] is {value}))",
        f"forall_str(lambda s: implies(at_loop_entry(s in signature) and not {inpre}, signature[s] is at_loop_entry(signature[s])))"],
        prefix_lemma=True, modifies=["dict_str_ref.keys[signature]", "dict_str_ref.map[signature]"])


# (discharged once the inner loops' invariants were phrased over the prefix of the waiting names, with the engine supplying the three
#  elementary facts about prefixes of the iterated sequence — `prefix_lemma`)
CONTRACTS["lisp_parsers.parsing_utils:parse_signature@members"] = dict(
    prop="C01", shards=4,
    params={"parameters": ("iter", "str"), "domain_types": ("ref", "dict_PDDLType")},
    locals={"signature": ("ref", "dict_str_ref"), "grouped_params": ("seq", "str")},
    returns=("ref", "dict_str_ref"), dict_values={"dict_str_ref": "PDDLType"}, dict_membership_only=True,
    globals={"ObjectType": ("ref", "PDDLType", "G_ObjectType")},
    requires=["iter_pos(parameters) == 0", "allocated(domain_types)"],
    ensures=[
        "fresh(result)",
        # exactly the written parameter names ...
        f"forall_str(lambda s: (s in result) == (tl_has({_T}, s, {_NT}) or tl_pend({_T}, s, {_NT})))",
        # ... each with the type object registered under its declared type name; parameters listed without a type get the default object type
        f"forall_str(lambda s: implies(tl_has({_T}, s, {_NT}) and not tl_pend({_T}, s, {_NT}), result[s] is domain_types[tl_type({_T}, s, {_NT})]))",
        f"forall_str(lambda s: implies(tl_pend({_T}, s, {_NT}), result[s] is ObjectType))"],
    raises={"SyntaxError": _BADNAME, "StopIteration": f"tl_mark({_T}, {_NT})", "KeyError": "True"},
    must_raise=[_BADNAME],
    modifies=[],
    loops={
        0: dict(invariants=[
            "fresh(signature)", f"not tl_mark({_T}, _i)",
            f"forall_str(lambda s: (s in signature) == tl_has({_T}, s, _i))", f"forall_str(lambda s: (s in grouped_params) == tl_pend({_T}, s, _i))",
            f"forall_str(lambda s: implies(s in signature, signature[s] is domain_types[tl_type({_T}, s, _i)]))",
            f"forall_int(lambda j: implies(not tl_mark({_T}, j) and {_T}[j] != '-', qmark({_T}[j])), 0, _i)",
            "forall_str(lambda s: implies(s in grouped_params, qmark(s)))"],
            modifies=["dict_str_ref.keys[signature]", "dict_str_ref.map[signature]"]),
        1: _inner_m("domain_types[parameter_type]"),
        2: _inner_m("ObjectType")},
    spec_hooks=SG_HOOKS)
