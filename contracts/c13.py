"""C13 — simplified numeric conditions are valid PDDL and mean the same as the originals (bounded; sympy is trusted/external)."""
import itertools
import math
import random
from fractions import Fraction
from pyvc.bounded import Harness, Failure
from spec import pddl_sem as PS, gen as G, repo_api as RA, sexp as SX, views as V

CONTRACTS = {}
LEVEL = "other"
EXPLANATION = ("bounded stand-in: simplified printing (single expression, inequality with substitution of equalities, equality, a precondition's "
               "whole set of numeric conditions) over generated polynomial / rational expressions: the output must be accepted by the library's "
               "own reader, use only binary + - * /, and agree with the original on a rational grid (exact Fraction evaluation) up to the rounding "
               "of coefficients at the requested decimals; the truth of a simplified condition set must agree with the original away from the boundary. "
               "sympy (simplify/expand/parse_expr/subs) is external and trusted only through these end-to-end comparisons.")
TRUSTED = ["sympy", "exact rational evaluation in this file (Fraction) as the independent algebra"]
ASSUMPTIONS = ["bounded: expression shapes and coefficient list in contracts/c13.py; grid {-2, -1/2, 1, 3}^k; digits 0..6 (quick: 2 and 4)",
               "rounding bound = 3 * 0.5*10^-d * sum of |monomial values| of the expanded original (crude bound for rational expressions)"]

FL = ["(fuel-level ?t1)", "(load_limit ?x)", "(cap a-b)", "(cap-a b)", "(f ?u)", "(cost )"]
FSIG = {"fuel-level": [("?a", "object")], "load_limit": [("?a", "object")], "cap": [("?a", "object")], "cap-a": [("?a", "object")],
        "f": [("?a", "object")], "cost": []}
COEFFS = ["2", "-3", "0.5", "2.5", "0.125", "2.99999", "3.00001", "0.001", "-0.004", "1"]
GRID = [Fraction(-2), Fraction(-1, 2), Fraction(1), Fraction(3)]


def _functions():
    from pddl_plus_parser.models import PDDLFunction, PDDLType
    obj = PDDLType("object")
    return {n: PDDLFunction(name=n, signature={p: obj for p, _ in sig}) for n, sig in FSIG.items()}


def shapes(rnd, n):
    """PDDL texts of numeric expressions: linear, products, squares/cubes, quotients"""
    out = []
    for _ in range(n):
        a, b, c = rnd.sample(FL, 3)
        k1, k2, k3 = (rnd.choice(COEFFS) for _ in range(3))
        out += [f"(+ (* {k1} {a}) (* {k2} {b}))", f"(- (* {k1} {a}) (+ {b} {k3}))", f"(* (+ {a} {k1}) (+ {b} {k2}))", f"(* {k1} (* {a} {a}))",
                f"(* (* {a} {a}) (* {a} {k2}))", f"(+ (* {k1} (* {a} {b})) (* {k2} {c}))", f"(/ {a} {k1})", f"(/ (+ {a} {k2}) {b})",
                f"(- (* {k1} {a}) (* {k1} {a}))", f"(+ (* (* {k1} {a}) {k2}) {k3})", f"(/ {k1} (* {b} {b}))", f"(* {a} (- {b} {b}))"]
    return out


def fr(n, env):
    """exact value of a spec NumExp at env: {(name,args): Fraction}; None on division by zero"""
    if n[0] == "num":
        return Fraction(repr(n[1])) if not float(n[1]).is_integer() else Fraction(int(n[1]))
    if n[0] == "fl":
        return env[(n[1], n[2])]
    l, r = fr(n[2], env), fr(n[3], env)
    if l is None or r is None:
        return None
    if n[1] == "+":
        return l + r
    if n[1] == "-":
        return l - r
    if n[1] == "*":
        return l * r
    return None if r == 0 else l / r


def mono_bound(n, env):
    """sum of |cofactor values| of the printed constants (constants count as >= 1; products distribute over sums)"""
    if n[0] == "num":
        return max(Fraction(1), abs(Fraction(repr(n[1]))))     # rounding a printed constant is an absolute error on it
    if n[0] == "fl":
        return abs(env[(n[1], n[2])])
    l, r = mono_bound(n[2], env), mono_bound(n[3], env)
    if n[1] in "+-":
        return l + r
    if n[1] == "*":
        return l * r
    rv = fr(n[3], env)
    return l / abs(rv) * 2 if rv not in (None, 0) else Fraction(10 ** 6)


def fluents_of(n, acc):
    if n[0] == "fl":
        acc.add((n[1], n[2]))
    elif n[0] == "bin":
        fluents_of(n[2], acc)
        fluents_of(n[3], acc)
    return acc


def only_binary(n):
    if n[0] == "bin":
        return n[1] in "+-*/" and only_binary(n[2]) and only_binary(n[3])
    return n[0] in ("num", "fl")


def read_numeric(text):
    """(spec NumExp via the independent reader, outcome of the library's reader)"""
    from pddl_plus_parser.lisp_parsers import PDDLTokenizer
    from pddl_plus_parser.models.numerical_expression import construct_expression_tree
    lib = RA.outcome(lambda: construct_expression_tree(PDDLTokenizer(pddl_str=text).parse(), _functions()))
    try:
        spec = PS.sem_num(SX.read_text(text), FSIG)
    except (PS.Malformed, PS.Unrepresentable, SX.Reject) as ex:
        spec = ("bad", str(ex))
    return spec, lib


def envs_for(fls, rnd, k=10):
    fls = sorted(fls)
    allv = list(itertools.product(GRID, repeat=len(fls)))
    if len(allv) > k:
        allv = rnd.sample(allv, k)
    return [dict(zip(fls, v)) for v in allv]


class SimplifyExpression(Harness):
    name = "c13-expr"
    prop = "C13"
    shards = 8
    functions = ("simplify_complex_numeric_expression", "convert_expr_to_pddl", "_convert_internal_expression_to_pddl", "extract_atom",
                 "_recursive_pow_expression_to_pddl", "transform_expression", "NumericalExpressionTree.simplify_complex_numerical_pddl_expression",
                 "NumericalExpressionTree.to_mathematical")
    bound = {"quick": "12 expression shapes x 12 seeded draws of fluents/coefficients x digits {2, 4} x comparison operator", "thorough": "60 draws x digits 0..6"}
    rule = "(expression, digits, operator); non-trivial = expression with >= 2 operators; distinct by input"

    def inputs(self, tier, seed):
        rnd = random.Random(seed)
        digits = (2, 4) if tier == "quick" else range(0, 7)
        for i, e in enumerate(shapes(rnd, 12 if tier == "quick" else 60)):
            for d in digits:
                yield {"lhs": e, "digits": d, "op": ["<=", ">=", "<", ">"][i % 4], "rhs": ["0", "(cost )", "2.5"][i % 3]}

    def nontrivial_key(self, inp):
        return str(inp)

    def check(self, inp):
        from pddl_plus_parser.models.numerical_expression import NumericalExpressionTree
        self.cases += 1
        d = inp["digits"]
        text = f"({inp['op']} {inp['lhs']} {inp['rhs']})"
        spec_in, lib_in = read_numeric(inp["lhs"])
        cond = RA.outcome(lambda: NumericalExpressionTree(read_numeric_tree(text)).simplify_complex_numerical_pddl_expression(d))
        if lib_in[0] != "ok" or spec_in[0] == "bad":
            return []
        if cond[0] != "ok":
            return [Failure(clause="simplified printing of a supported expression does not raise", expected="text", observed=cond)]
        try:
            ast_ = SX.read_text(cond[1])
            out_l_txt = SX.flat(ast_[1]) if not isinstance(ast_[1], str) else [ast_[1]]
            spec_out, lib_out = read_numeric(" ".join(out_l_txt))
        except (SX.Reject, IndexError) as ex:
            return [Failure(clause="the simplified text is one balanced form", expected="s-expression", observed=cond[1])]
        out = []
        if lib_out[0] != "ok" or spec_out[0] == "bad":
            return [Failure(clause="the simplified text is accepted by the library's own reader", expected="tree", observed=(cond[1], lib_out if lib_out[0] != "ok" else spec_out))]
        if not only_binary(spec_out):
            out.append(Failure(clause="the simplified text uses only binary + - * /", expected="binary", observed=cond[1]))
        if ast_[0] != inp["op"]:
            out.append(Failure(clause="the comparison operator is kept", expected=inp["op"], observed=ast_[0]))
        rnd = random.Random(hash(text) & 0xffff)
        fls = fluents_of(spec_in, set()) | fluents_of(spec_out, set())
        for env in envs_for(fls, rnd):
            a, b = fr(spec_in, env), fr(spec_out, env)
            if a is None or b is None:
                continue
            bound = 3 * Fraction(1, 2) * Fraction(1, 10 ** d) * (mono_bound(spec_in, env) + 1)
            if abs(a - b) > bound:
                out.append(Failure(clause="simplified expression == original up to rounding of coefficients at the requested decimals",
                                   expected=f"{float(a):.6g} +- {float(bound):.3g}", observed=f"{float(b):.6g} from {cond[1]}",
                                   input={**inp, "valuation": {str(k): str(v) for k, v in env.items()}}))
                break
        return out[:2]


def read_numeric_tree(text):
    from pddl_plus_parser.lisp_parsers import PDDLTokenizer
    from pddl_plus_parser.models.numerical_expression import construct_expression_tree
    return construct_expression_tree(PDDLTokenizer(pddl_str=text).parse(), _functions())


def cond_truth(c, env, margin):
    """truth of ('cmp', op, l, r) at env; None when within `margin` of the boundary or undefined"""
    l, r = fr(c[2], env), fr(c[3], env)
    if l is None or r is None:
        return None
    diff = l - r
    if abs(diff) <= margin:
        return None
    return {"<=": diff < 0, "<": diff < 0, ">=": diff > 0, ">": diff > 0, "=": False}[c[1]]


def exact_truth(c, env):
    l, r = fr(c[2], env), fr(c[3], env)
    if l is None or r is None:
        return None
    return {"<=": l <= r, "<": l < r, ">=": l >= r, ">": l > r, "=": l == r}[c[1]]


class SimplifyConditions(Harness):
    name = "c13-conditions"
    prop = "C13"
    shards = 8
    functions = ("Precondition._simplify_numeric_preconditions", "Precondition.print", "simplify_inequality", "simplify_equality",
                 "NumericalExpressionTree.extract_eliminated_expressions")
    bound = {"quick": "80 seeded condition sets: 1-3 inequalities over linear / bilinear expressions + 0-2 linear equalities (a sum, a difference, a difference equal to 0; a second one with a coefficient), digits {2,4}", "thorough": "500 sets x digits 0..6"}
    rule = "(condition set, digits); non-trivial = >= 2 conditions; distinct by input"

    def inputs(self, tier, seed):
        rnd = random.Random(seed + 17)
        n = 80 if tier == "quick" else 500
        digits = (2, 4) if tier == "quick" else range(0, 7)
        for i in range(n):
            a, b, c = rnd.sample(FL, 3)
            k = [rnd.choice(COEFFS) for _ in range(6)]
            ineqs = [f"(<= (+ (* {k[0]} {a}) (* {k[1]} {b})) {k[2]})", f"(>= (* {k[3]} (* {a} {c})) (- {b} {k[4]}))", f"(< (- {a} {b}) (* {k[5]} {c}))",
                     f"(> {a} (- {k[2]} {b}))", f"(< (+ {a} {b}) {k[2]})"]
            rnd.shuffle(ineqs)
            ineqs = ineqs[:rnd.randint(1, 3)]
            neq = rnd.randint(0, 2)
            # the first equality is a sum, a difference, or a difference equal to 0 (only sums may be used for elimination as they are)
            kind = ("sum", "diff", "diff0")[i % 3]
            k2 = 0 if kind == "diff0" else k[2]
            first = f"(= (+ {a} {b}) {k2})" if kind == "sum" else f"(= (- {a} {b}) {k2})"
            eqs = [first, f"(= (+ {c} (* {k[1]} {a})) 0)"][:neq]
            for d in digits:
                # "solve": how to make the equalities hold exactly: a := k2 - b (sum) / a := k2 + b (difference), c := -k1 * a
                yield {"conds": ineqs + eqs, "digits": d, "solve": {"a": a, "b": b, "c": c, "k1": k[1], "k2": k2, "n": neq, "kind": kind}}

    def nontrivial_key(self, inp):
        return str(inp) if len(inp["conds"]) >= 2 else None

    def check(self, inp):
        from pddl_plus_parser.models import Precondition, NumericalExpressionTree
        self.cases += 1
        d = inp["digits"]
        pre = Precondition("and")
        spec_in = []
        for t in inp["conds"]:
            pre.add_condition(NumericalExpressionTree(read_numeric_tree(t)))
            a = SX.read_text(t)
            spec_in.append(("cmp", a[0], PS.sem_num(a[1], FSIG), PS.sem_num(a[2], FSIG)))
        r = RA.outcome(pre.print, True, d)
        if r[0] != "ok":
            return [Failure(clause="simplified printing of a condition set does not raise", expected="text", observed=r)]
        try:
            ast_ = SX.read_text(r[1])
        except SX.Reject:
            return [Failure(clause="the simplified text is one balanced form", expected="s-expression", observed=r[1])]
        spec_out = []
        for c in ast_[1:]:
            if SX.is_atom(c) if hasattr(SX, "is_atom") else isinstance(c, str):
                return [Failure(clause="every printed condition is a form", expected="list", observed=r[1])]
            txt = " ".join(SX.flat(c))
            lib = RA.outcome(read_numeric_tree, txt)
            if lib[0] != "ok":
                return [Failure(clause="every simplified condition is accepted by the library's own reader", expected="tree", observed=(txt, lib))]
            try:
                l, rr = PS.sem_num(c[1], FSIG), PS.sem_num(c[2], FSIG)
            except (PS.Malformed, PS.Unrepresentable) as ex:
                return [Failure(clause="every simplified condition uses only binary + - * / over declared fluents", expected="binary", observed=(txt, str(ex)))]
            spec_out.append(("cmp", c[0], l, rr))
        fls = set()
        for c in spec_in + spec_out:
            fluents_of(c[2], fls)
            fluents_of(c[3], fls)
        rnd = random.Random(hash(str(inp)) & 0xffff)
        eqs_in = [c for c in spec_in if c[1] == "="]
        out = []
        sv = inp.get("solve")

        def key_of(text):
            a_ = SX.read_text(text)
            return (a_[0], tuple(a_[1:]))
        for env in envs_for(fls, rnd, k=24):
            if eqs_in:
                if not sv:
                    continue
                # valuations on which the (linear) equalities hold exactly: a := k2 - b (and c := -k1 * a)
                ka, kb, kc = key_of(sv["a"]), key_of(sv["b"]), key_of(sv["c"])
                if kb not in env:
                    continue
                env = dict(env)
                env[ka] = Fraction(sv["k2"]) - env[kb] if sv.get("kind", "sum") == "sum" else Fraction(sv["k2"]) + env[kb]
                if sv["n"] >= 2:
                    env[kc] = -Fraction(sv["k1"]) * env[ka]
                elif kc not in env:
                    env[kc] = Fraction(1)
            margin = 3 * Fraction(1, 2) * Fraction(1, 10 ** d) * (sum(mono_bound(c[2], env) + mono_bound(c[3], env) for c in spec_in) + 1)
            tin = [exact_truth(c, env) for c in spec_in if c[1] != "="]      # the originals are exact; only outputs are rounded
            tout = [cond_truth(c, env, margin) for c in spec_out if c[1] != "="]
            if None in tin or None in tout:
                continue
            if all(tin) != all(tout):
                out.append(Failure(clause="the simplified condition set is satisfied by exactly the same valuations (away from the rounding boundary); a condition is omitted only if implied",
                                   expected=all(tin), observed=(all(tout), r[1]), input={**inp, "valuation": {str(k): str(v) for k, v in env.items()}}))
                break
        if eqs_in:
            # with equalities: every output condition must be implied by the inputs on points that satisfy the equalities:
            # solve the (linear) equalities for one fluent each by evaluation on a line search is out of scope; check instead
            # that the number of conditions did not grow and that each kept inequality reads the same fluents or fewer
            if len(spec_out) > len(spec_in):
                out.append(Failure(clause="simplification does not add conditions", expected=len(spec_in), observed=(len(spec_out), r[1])))
        return out[:2]


HARNESSES = [SimplifyExpression(), SimplifyConditions()]
