"""C07 — queries and transitions are pure: inputs and earlier results are never modified (bounded histories + frames on P functions)."""
import itertools
import random
import sys
import threading
from pyvc.bounded import Harness, Failure
from spec import pddl_sem as PS, semantics as SEM, gen as G, repo_api as RA, sexp as SX, views as V
from contracts.c01 import _norm_domain

_FN = ("ref", "PDDLFunction")
CONTRACTS = {
    # the copy stored into a successor state is a fresh object with the same value: later writes to the operator's own
    # fluent object cannot reach it (separation), and nothing that existed before the call is written (strict frame)
    "models.pddl_function:PDDLFunction.copy": dict(
        prop="C07", params={"self": _FN}, returns=_FN,
        ensures=["fresh(result)", "result != self", "result.name == self.name", "result.stored_value == self.stored_value",
                 "result.signature == self.signature", "result.repeating_variables == self.repeating_variables",
                 "self.stored_value == old(self.stored_value)"],
        raises={}, modifies=[]),
}
LEVEL = "other"
EXPLANATION = ("bounded stand-in: seeded random histories of API calls (ground, applicability, apply with each flag combination, re-apply an "
               "operator object to earlier and later states, print, export, serialize, copy, parse another domain, combine domains) on the "
               "scenario and a generated domain with forall/when/numeric parts; after every call a structural digest of the domain (ordered "
               "signatures, formulas, effects, types), of the problem and of every state obtained so far must be unchanged and repeating a "
               "query must give the same answer; plus two-thread runs of the same histories on one shared domain compared with the sequential result. "
               "Strict modifies-frames of the functions under deductive contract (C12: calculate, comparison, assignment writes only the target) are reported under C12.")
TRUSTED = ["digest = spec/views.py views incl. parameter order + exported text", "thread schedules are whatever CPython produces with a 1 microsecond switch interval (exploration, not exhaustive)"]
ASSUMPTIONS = ["bounded: histories of 12 calls; 150 (quick) / 1500 (thorough) seeds", "A8: thread interleavings are sampled, not enumerated"]

RICH = [("mv", "?x - a ?y - a", "(and (p ?x) (not (p ?y)) (forall (?z - a) (or (not (r ?z ?x)) (q ?z))))", "(and (not (p ?x)) (p ?y) (increase (c) 1) (forall (?z - a) (when (and (q ?z)) (and (r ?x ?z) (increase (f ?z) (c))))))"),
        ("mk", "?x - a", "(and (or (not (q ?x)) (>= (f ?x) 1)))", "(and (q ?x) (when (and (p ?x)) (g)) (increase (f ?x) 2))"),
        ("cl", "", "(and (g))", "(and (not (g)) (forall (?z - a) (when (and (q ?z)) (not (q ?z)))) (assign (c) 0))"),
        ("dd", "?x - a ?y - a", "(and (>= (c) 1))", "(and (increase (d ?x ?y) 1) (decrease (c) 1))"),
        # parameters of a strict subtype of the predicates' declared types; a fluent (f ?w) that the problem may not define
        ("sb", "?w - b", "(and (s ?w) (or (p ?w) (not (q ?w))))", "(and (q ?w) (not (p ?w)) (increase (f ?w) 3))")]
SPARSE_INIT = "(define (problem scen) (:domain gen) (:objects o1 - a o2 - b) (:init (p o1) (s o2) (r o2 o1) (= (c) 1)) (:goal (and (q o2))))"


def digest_domain(dom):
    from pddl_plus_parser.exporters import DomainExporter
    v = V.v_domain(dom)
    return repr((_norm_domain(v), [(n, a["params"]) for n, a in v["actions"].items()],
                 [(n, [(k, t.name) for k, t in p.signature.items()]) for n, p in dom.predicates.items()],
                 [(n, [(k, t.name) for k, t in f.signature.items()]) for n, f in dom.functions.items()],
                 sorted(SX.lex(DomainExporter().extract_domain(dom)))))


def run_history(dom, prob, seed, n_calls=12, log=None):
    """Executes a seeded history; returns (failures, results) — results are value digests used for cross-run comparison."""
    from pddl_plus_parser.models import Operator, State
    from pddl_plus_parser.exporters import DomainExporter, ProblemExporter
    rnd = random.Random(seed)
    d0 = digest_domain(dom)
    p0 = repr(sorted(V.v_problem(prob).items(), key=lambda kv: kv[0]))
    init = State(predicates=prob.initial_state_predicates, fluents=prob.initial_state_fluents, is_init=True)
    states = [init]
    snaps = [V.v_state(init)]
    ops = []
    results = []
    fails = []
    calls = [c for c in G.scenario_calls()] + [("sb", ("o2",))]
    memo = {}
    for step in range(n_calls):
        kind = rnd.choice(["new-op", "applicable", "apply", "apply", "reapply", "print", "export", "serialize", "copy", "parse-other", "typed"])
        desc = kind
        try:
            if kind == "new-op" or not ops:
                c = rnd.choice(calls)
                op = Operator(dom.actions[c[0]], dom, list(c[1]), problem_objects=prob.objects)
                ops.append((c, op))
                if rnd.random() < 0.5:
                    op.ground()
                desc = f"new-op {c}"
            elif kind == "applicable":
                c, op = rnd.choice(ops)
                s = rnd.randrange(len(states))
                a1 = op.is_applicable(states[s])
                a2 = op.is_applicable(states[s])
                results.append(("applicable", c, s, a1))
                if a1 != a2:
                    fails.append((step, f"repeating is_applicable {c} on state {s} changed its answer", a1, a2))
                # ... also when the same question was asked earlier in the history, through whatever operator object
                if memo.setdefault(("applicable", c, s), a1) != a1:
                    fails.append((step, f"is_applicable {c} on state {s} answers differently than earlier in this history", memo[("applicable", c, s)], a1))
                desc = f"applicable {c} s{s}"
            elif kind in ("apply", "reapply"):
                c, op = rnd.choice(ops) if kind == "reapply" else ops[-1]
                s = rnd.randrange(len(states))
                allow, skip = rnd.random() < 0.5, rnd.random() < 0.3
                try:
                    ns = op.apply(states[s], allow_inapplicable_actions=allow, skip_validation=skip)
                    states.append(ns)
                    snaps.append(V.v_state(ns))
                    results.append(("apply", c, s, allow, skip, repr(sorted(snaps[-1][0])), repr(sorted(snaps[-1][1].items()))))
                except ValueError:
                    results.append(("apply", c, s, allow, skip, "ValueError"))
                if memo.setdefault(("apply", c, s, allow, skip), results[-1][5:]) != results[-1][5:]:
                    fails.append((step, f"apply {c} on state {s} (allow={allow}, skip={skip}) gives a different result than earlier in this history",
                                  str(memo[("apply", c, s, allow, skip)])[:300], str(results[-1][5:])[:300]))
                desc = f"{kind} {c} s{s} allow={allow} skip={skip}"
            elif kind == "print":
                for a in dom.actions.values():
                    str(a.preconditions)
                    a.effects_to_pddl()
                    str(a)
            elif kind == "export":
                t1 = DomainExporter().extract_domain(dom)
                t2 = DomainExporter().extract_domain(dom)
                ProblemExporter().extract_problem(prob)
                if sorted(SX.lex(t1)) != sorted(SX.lex(t2)):
                    fails.append((step, "exporting the domain twice gives different token multisets", len(t1), len(t2)))
            elif kind == "serialize":
                s = rnd.randrange(len(states))
                states[s].serialize()
                states[s].typed_serialize()
            elif kind == "copy":
                s = rnd.randrange(len(states))
                cp = states[s].copy()
                states.append(cp)
                snaps.append(V.v_state(cp))
            elif kind == "parse-other":
                RA.parse_domain_text(G.domain_text([("zz", "?x - a", "(and (p ?x))", "(and (forall (?w - b) (when (and (s ?w)) (q ?w))))")], with_const=True))
            elif kind == "typed":
                c, op = rnd.choice(ops)
                op.typed_action_call
        except Exception as ex:      # noqa: BLE001
            fails.append((step, f"{desc} raised", "no exception", repr(ex)[:200]))
        if log is not None:
            log.append(desc)
        # frames: nothing obtained earlier may have changed
        if digest_domain(dom) != d0:
            fails.append((step, f"after `{desc}` the domain (schemas, signatures, vocabulary) is unchanged", "unchanged", "changed"))
            d0 = digest_domain(dom)
        if repr(sorted(V.v_problem(prob).items(), key=lambda kv: kv[0])) != p0:
            fails.append((step, f"after `{desc}` the problem is unchanged", "unchanged", "changed"))
            p0 = repr(sorted(V.v_problem(prob).items(), key=lambda kv: kv[0]))
        for i, (st, sn) in enumerate(zip(states, snaps)):
            if not SEM.states_equal(V.v_state(st), sn):
                fails.append((step, f"after `{desc}` state #{i} obtained earlier keeps its value", str(sn), str(V.v_state(st))))
                snaps[i] = V.v_state(st)
        if len(fails) >= 3:
            break
    return fails, results


class Histories(Harness):
    name = "c07-histories"
    prop = "C07"
    shards = 8
    functions = ("Operator.ground", "Operator.is_applicable", "Operator.apply", "Operator._apply_universal_effects", "GroundedEffect.apply",
                 "GroundedPrecondition._ground_universal_condition", "State.copy", "State.serialize", "DomainExporter.extract_domain",
                 "ProblemExporter.extract_problem", "Precondition.__str__", "Action.effects_to_pddl", "Domain.__init__", "DomainParser.parse_domain")
    bound = {"quick": "150 seeded histories of 12 calls on the rich 4-action domain", "thorough": "1500 histories"}
    rule = "seeded random history; all non-trivial; distinct by seed"

    def inputs(self, tier, seed):
        for i in range(150 if tier == "quick" else 1500):
            yield {"seed": seed * 7919 + i}

    def check(self, inp):
        self.cases += 1
        dom = RA.parse_domain_text(G.domain_text(RICH))
        # odd seeds: a problem that leaves most fluents undefined, so that effects create them in successor states
        ptxt = SPARSE_INIT if inp["seed"] % 2 else G.scenario_problem_text(("(q o2)", "(r o2 o1)", "(s o2)"))
        prob = RA.parse_problem_text(ptxt, dom)
        log = []
        fails, _ = run_history(dom, prob, inp["seed"], log=log)
        return [Failure(clause=f[1], expected=f[2], observed=f[3], input={**inp, "step": f[0], "history": log[:f[0] + 1]}) for f in fails[:3]]


class Threads(Harness):
    name = "c07-threads"
    prop = "C07"
    shards = 4
    functions = ("Operator.apply", "Operator.is_applicable", "Operator.ground")
    bound = {"quick": "40 pairs of histories run in two threads on one shared domain (switch interval 1e-6 s), compared with each history's sequential result", "thorough": "400 pairs"}
    rule = "pair of seeds; exploration of CPython schedules"
    exhaustive = False

    def inputs(self, tier, seed):
        for i in range(40 if tier == "quick" else 400):
            yield {"seeds": [seed * 31 + 2 * i, seed * 31 + 2 * i + 1]}

    def check(self, inp):
        self.cases += 1
        text = G.domain_text(RICH)
        ptxt = G.scenario_problem_text(("(q o2)", "(r o2 o1)"))
        expected = []
        for s in inp["seeds"]:
            d = RA.parse_domain_text(text)
            p = RA.parse_problem_text(ptxt, d)
            expected.append(run_history(d, p, s)[1])
        dom = RA.parse_domain_text(text)
        probs = [RA.parse_problem_text(ptxt, dom) for _ in inp["seeds"]]
        got = [None, None]
        fl = [None, None]

        def work(i):
            fl[i], got[i] = run_history(dom, probs[i], inp["seeds"][i])
        old = sys.getswitchinterval()
        sys.setswitchinterval(1e-6)
        try:
            ts = [threading.Thread(target=work, args=(i,)) for i in range(2)]
            [t.start() for t in ts]
            [t.join() for t in ts]
        finally:
            sys.setswitchinterval(old)
        out = []
        for i in range(2):
            if fl[i]:
                out.append(Failure(clause="threaded: " + fl[i][0][1], expected=fl[i][0][2], observed=fl[i][0][3]))
            elif got[i] != expected[i]:
                out.append(Failure(clause="a history run concurrently with another on a shared domain returns the same results as when run alone",
                                   expected=str(expected[i])[:300], observed=str(got[i])[:300]))
        return out[:2]


HARNESSES = [Histories(), Threads()]

# ---- deductive: a new Domain owns all of its containers and leaves the module-level default table alone ------------------------------
CONTRACTS["models.pddl_domain:Domain.__init__"] = dict(
    prop="C07", params={"self": ("ref", "Domain")}, returns="none",
    globals={"DEFAULT_TYPES": ("ref", "dict_PDDLType", "G_DEFAULT_TYPES")},
    requires=["allocated(self)", "allocated(DEFAULT_TYPES)"],
    ensures=[
        # five new dictionaries and a new list, pairwise different objects, none of them the default table
        "fresh(self.actions)", "fresh(self.constants)", "fresh(self.functions)", "fresh(self.types)", "fresh(self.predicates)", "fresh(self.requirements)",
        "self.types is not DEFAULT_TYPES",
        "self.actions != self.constants and self.actions != self.functions and self.actions != self.predicates and self.constants != self.functions "
        "and self.constants != self.predicates and self.functions != self.predicates",
        # the types start as a copy of the defaults (same keys, same entries); everything else starts empty
        "self.types.keys() == DEFAULT_TYPES.keys()", "forall_str(lambda k: self.types[k] is DEFAULT_TYPES[k])",
        "len(self.actions.keys()) == 0 and len(self.constants.keys()) == 0 and len(self.functions.keys()) == 0 and len(self.predicates.keys()) == 0",
        # the default table itself is not written
        "DEFAULT_TYPES.keys() == old(DEFAULT_TYPES.keys())", "forall_str(lambda k: DEFAULT_TYPES[k] is old(DEFAULT_TYPES[k]))"],
    raises={}, modifies=["Domain.actions[self]", "Domain.constants[self]", "Domain.functions[self]", "Domain.types[self]", "Domain.predicates[self]",
                         "Domain.requirements[self]"])
