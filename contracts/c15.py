"""C15 — sequential-to-joint plan conversion keeps actions, per-agent order and outcome (bounded: random valid walks)."""
import itertools
import random
from pyvc.bounded import Harness, Failure
from spec import pddl_sem as PS, semantics as SEM, gen as G, repo_api as RA, sexp as SX, views as V
from contracts.c16 import interfere

CONTRACTS = {}
LEVEL = "other"
EXPLANATION = ("bounded stand-in: PlanConverter on seeded random valid sequential plans (length <= 6) of a 2-3 agent STRIPS+numeric domain, "
               "with and without the shared-object constraint: every action exactly once, per-agent order kept, one slot per agent in the given "
               "order (others nop), every grouped member applicable in the step's pre-state and pairwise non-interfering, same final state.")
TRUSTED = ["spec/semantics.py:succ/holds and contracts/c16.py:interfere (add/delete clash, delete of the other's precondition atom, write/write and read/write clash on fluents)"]
ASSUMPTIONS = ["bounded: 600 (quick) / 4000 (thorough) seeded random walks; agents a1..a3, items i1, i2", "executing agent = first argument (as the converter assumes)"]


def _walk(dspec, pspec, rnd, length, n_agents):
    objects = dict(pspec["objects"])
    st = (frozenset(pspec["facts"]), dict(pspec["fluents"]))
    plan = []
    calls = G.ma_calls(n_agents)
    for _ in range(length):
        opts = [c for c in calls if SEM.holds(dspec["actions"][c[0]]["pre"], {p: a for (p, _), a in zip(dspec["actions"][c[0]]["params"], c[1])}, st, objects, dspec["types"])]
        if not opts:
            break
        c = rnd.choice(opts)
        plan.append(c)
        st = SEM.succ(dspec["actions"][c[0]], c[1], st, objects, dspec["types"])
    return plan, st


class Conversion(Harness):
    name = "c15-convert"
    prop = "C15"
    shards = 8
    functions = ("PlanConverter.convert_plan", "PlanConverter._create_joint_actions", "PlanConverter._validate_well_defined_joint_action",
                 "PlanConverter._validate_well_defined_action_insertion", "PlanConverter._extract_grounded_preconditions",
                 "PlanConverter._extract_grounded_effects", "PlanConverter._extract_plan_actions", "apply_actions")
    bound = {"quick": "600 seeded random valid walks of length 1..6, 2 or 3 agents, concurrency constraint on/off, plan text with and without step numbers", "thorough": "4000 walks"}
    rule = "random valid walk; non-trivial = length >= 3; distinct by (plan, agents, flag)"

    def inputs(self, tier, seed):
        n = 600 if tier == "quick" else 4000
        for i in range(n):
            yield {"seed": seed * 100003 + i, "agents": 2 + (i % 2), "constraint": bool((i // 2) % 2), "numbered": bool((i // 4) % 2)}

    def nontrivial_key(self, inp):
        return str(inp)

    def check(self, inp):
        from pddl_plus_parser.multi_agent.single_agent_plan_converter import PlanConverter
        self.cases += 1
        na = inp["agents"]
        dom = RA.parse_domain_text(G.MA_DOMAIN)
        prob = RA.parse_problem_text(G.ma_problem_text(na), dom)
        dspec = PS.sem_domain(SX.read_text(G.MA_DOMAIN))
        pspec = PS.sem_problem(SX.read_text(G.ma_problem_text(na)), dspec)
        objects = dict(pspec["objects"])
        rnd = random.Random(inp["seed"])
        if "fixed_plan" in inp:       # replay / known-finding witness: a given valid plan instead of a random walk
            plan = [(c[0], tuple(c[1:])) for c in inp["fixed_plan"]]
            final_seq = (frozenset(pspec["facts"]), dict(pspec["fluents"]))
            for c in plan:
                final_seq = SEM.succ(dspec["actions"][c[0]], c[1], final_seq, objects, dspec["types"])
        else:
            plan, final_seq = _walk(dspec, pspec, rnd, rnd.randint(1, 6), na)
        agents = G.MA_AGENTS[:na]
        text = "".join((f"{k}: " if inp["numbered"] else "") + G.call_text(c) + "\n" for k, c in enumerate(plan))
        p = RA.write_tmp(text, ".plan")
        r = RA.outcome(PlanConverter(dom).convert_plan, prob, p, list(agents), inp["constraint"])
        info = {**inp, "fixed_plan": [list((c[0],) + c[1]) for c in plan]}
        if r[0] != "ok":
            return [Failure(clause="a valid sequential plan is converted", expected="joint plan", observed=r, input=info)]
        joint = r[1]
        out = []
        flat = []
        st = (frozenset(pspec["facts"]), dict(pspec["fluents"]))
        for k, ja in enumerate(joint):
            acts = [(a.name, tuple(a.parameters)) for a in ja.actions]
            if len(acts) != na:
                out.append(Failure(clause="one slot per agent in every joint action", expected=na, observed=len(acts), input=info))
                break
            members = []
            for slot, (nm, args) in enumerate(acts):
                if nm == "nop":
                    continue
                if not args or args[0] != agents[slot]:
                    out.append(Failure(clause="slot i holds nop or an action executed by agent i (given agent order)", expected=agents[slot], observed=(nm, args), input=info))
                members.append((nm, args))
            for m in members:
                env = {p_: a for (p_, _), a in zip(dspec["actions"][m[0]]["params"], m[1])}
                if not SEM.holds(dspec["actions"][m[0]]["pre"], env, st, objects, dspec["types"]):
                    out.append(Failure(clause="every grouped action is applicable in the step's pre-state", expected="applicable", observed=(k, m), input=info))
            for a, b in itertools.combinations(members, 2):
                kind = interfere(dspec, a, b, st, objects)
                if kind:
                    # known finding: delete effects are compared in their '(not ...)' text, so discrete clashes are never seen
                    cls = "discrete-clash-undetected" if kind in ("add-delete", "touches-precondition") and not inp["constraint"] else None
                    out.append(Failure(clause=f"grouped actions do not interfere ({kind})", expected="non-interfering", observed=(k, a, b), input=info, cls=cls))
                if inp["constraint"] and set(a[1]) & set(b[1]):
                    out.append(Failure(clause="with the concurrency constraint grouped actions share no object", expected="disjoint", observed=(k, a, b), input=info))
            # execute the members in plan order
            for m in sorted(members, key=lambda m_: plan.index(m_) if m_ in plan else 0):
                nxt = SEM.succ(dspec["actions"][m[0]], m[1], st, objects, dspec["types"], check_pre=False)
                st = nxt
            flat.extend(members)
            if out:
                return out[:3]
        if sorted(flat) != sorted(plan):
            out.append(Failure(clause="every action of the sequential plan occurs exactly once", expected=sorted(plan), observed=sorted(flat), input=info))
        for ag in agents:
            if [c for c in flat if c[1] and c[1][0] == ag] != [c for c in plan if c[1] and c[1][0] == ag]:
                out.append(Failure(clause="each agent's actions keep their relative order", expected=[c for c in plan if c[1][0] == ag], observed=[c for c in flat if c[1][0] == ag], input=info))
        if not out and not SEM.states_equal(st, final_seq):
            out.append(Failure(clause="executing the joint plan reaches the final state of the sequential plan", expected=str(final_seq), observed=str(st), input=info))
        return out[:3]


HARNESSES = [Conversion()]
