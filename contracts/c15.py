"""C15 — sequential-to-joint plan conversion keeps actions, per-agent order and outcome (bounded: random valid walks)."""
import itertools
import random
from pyvc.bounded import Harness, Failure
from spec import pddl_sem as PS, semantics as SEM, gen as G, repo_api as RA, sexp as SX, views as V
from contracts.c16 import interfere

CONTRACTS = {}
LEVEL = "other"
EXPLANATION = ("bounded stand-in: PlanConverter on seeded random valid sequential plans (length <= 6) of a 2-3 agent STRIPS+numeric domain, "
               "with and without the shared-object constraint: every action exactly once, per-agent order kept, one slot per agent in the given "
               "order (others nop), every grouped member applicable in the step's pre-state and pairwise non-interfering, same final state.")
TRUSTED = ["spec/semantics.py:succ/holds and contracts/c16.py:interfere (add/delete clash, delete of the other's precondition atom, write/write and read/write clash on fluents)"]
ASSUMPTIONS = ["bounded: 600 (quick) / 4000 (thorough) seeded random walks; agents a1..a3, items i1, i2", "executing agent = first argument (as the converter assumes)"]


def _walk(dspec, pspec, rnd, length, n_agents):
    objects = dict(pspec["objects"])
    st = (frozenset(pspec["facts"]), dict(pspec["fluents"]))
    plan = []
    calls = G.ma_calls(n_agents)
    for _ in range(length):
        opts = [c for c in calls if SEM.holds(dspec["actions"][c[0]]["pre"], {p: a for (p, _), a in zip(dspec["actions"][c[0]]["params"], c[1])}, st, objects, dspec["types"])]
        if not opts:
            break
        c = rnd.choice(opts)
        plan.append(c)
        st = SEM.succ(dspec["actions"][c[0]], c[1], st, objects, dspec["types"])
    return plan, st


class Conversion(Harness):
    name = "c15-convert"
    prop = "C15"
    shards = 8
    functions = ("PlanConverter.convert_plan", "PlanConverter._create_joint_actions", "PlanConverter._validate_well_defined_joint_action",
                 "PlanConverter._validate_well_defined_action_insertion", "PlanConverter._extract_grounded_preconditions",
                 "PlanConverter._extract_grounded_effects", "PlanConverter._extract_plan_actions", "apply_actions")
    bound = {"quick": "600 seeded random valid walks of length 1..6, 2 or 3 agents, concurrency constraint on/off, plan text with and without step numbers", "thorough": "4000 walks"}
    rule = "random valid walk; non-trivial = length >= 3; distinct by (plan, agents, flag)"

    def inputs(self, tier, seed):
        n = 600 if tier == "quick" else 4000
        for i in range(n):
            yield {"seed": seed * 100003 + i, "agents": 2 + (i % 2), "constraint": bool((i // 2) % 2), "numbered": bool((i // 4) % 2)}

    def nontrivial_key(self, inp):
        return str(inp)

    def check(self, inp):
        from pddl_plus_parser.multi_agent.single_agent_plan_converter import PlanConverter
        self.cases += 1
        na = inp["agents"]
        dom = RA.parse_domain_text(G.MA_DOMAIN)
        prob = RA.parse_problem_text(G.ma_problem_text(na), dom)
        dspec = PS.sem_domain(SX.read_text(G.MA_DOMAIN))
        pspec = PS.sem_problem(SX.read_text(G.ma_problem_text(na)), dspec)
        objects = dict(pspec["objects"])
        rnd = random.Random(inp["seed"])
        if "fixed_plan" in inp:       # replay / known-finding witness: a given valid plan instead of a random walk
            plan = [(c[0], tuple(c[1:])) for c in inp["fixed_plan"]]
            final_seq = (frozenset(pspec["facts"]), dict(pspec["fluents"]))
            for c in plan:
                final_seq = SEM.succ(dspec["actions"][c[0]], c[1], final_seq, objects, dspec["types"])
        else:
            plan, final_seq = _walk(dspec, pspec, rnd, rnd.randint(1, 6), na)
        agents = G.MA_AGENTS[:na]
        text = "".join((f"{k}: " if inp["numbered"] else "") + G.call_text(c) + "\n" for k, c in enumerate(plan))
        p = RA.write_tmp(text, ".plan")
        r = RA.outcome(PlanConverter(dom).convert_plan, prob, p, list(agents), inp["constraint"])
        info = {**inp, "fixed_plan": [list((c[0],) + c[1]) for c in plan]}
        if r[0] != "ok":
            return [Failure(clause="a valid sequential plan is converted", expected="joint plan", observed=r, input=info)]
        joint = r[1]
        out = []
        flat = []
        st = (frozenset(pspec["facts"]), dict(pspec["fluents"]))
        for k, ja in enumerate(joint):
            acts = [(a.name, tuple(a.parameters)) for a in ja.actions]
            if len(acts) != na:
                out.append(Failure(clause="one slot per agent in every joint action", expected=na, observed=len(acts), input=info))
                break
            members = []
            for slot, (nm, args) in enumerate(acts):
                if nm == "nop":
                    continue
                if not args or args[0] != agents[slot]:
                    out.append(Failure(clause="slot i holds nop or an action executed by agent i (given agent order)", expected=agents[slot], observed=(nm, args), input=info))
                members.append((nm, args))
            for m in members:
                env = {p_: a for (p_, _), a in zip(dspec["actions"][m[0]]["params"], m[1])}
                if not SEM.holds(dspec["actions"][m[0]]["pre"], env, st, objects, dspec["types"]):
                    out.append(Failure(clause="every grouped action is applicable in the step's pre-state", expected="applicable", observed=(k, m), input=info))
            for a, b in itertools.combinations(members, 2):
                kind = interfere(dspec, a, b, st, objects)
                if kind:
                    # known finding: delete effects are compared in their '(not ...)' text, so discrete clashes are never seen
                    cls = "discrete-clash-undetected" if kind in ("add-delete", "touches-precondition") and not inp["constraint"] else None
                    out.append(Failure(clause=f"grouped actions do not interfere ({kind})", expected="non-interfering", observed=(k, a, b), input=info, cls=cls))
                if inp["constraint"] and set(a[1]) & set(b[1]):
                    out.append(Failure(clause="with the concurrency constraint grouped actions share no object", expected="disjoint", observed=(k, a, b), input=info))
            # execute the members in plan order
            for m in sorted(members, key=lambda m_: plan.index(m_) if m_ in plan else 0):
                nxt = SEM.succ(dspec["actions"][m[0]], m[1], st, objects, dspec["types"], check_pre=False)
                st = nxt
            flat.extend(members)
            if out:
                return out[:3]
        if sorted(flat) != sorted(plan):
            out.append(Failure(clause="every action of the sequential plan occurs exactly once", expected=sorted(plan), observed=sorted(flat), input=info))
        for ag in agents:
            if [c for c in flat if c[1] and c[1][0] == ag] != [c for c in plan if c[1] and c[1][0] == ag]:
                out.append(Failure(clause="each agent's actions keep their relative order", expected=[c for c in plan if c[1][0] == ag], observed=[c for c in flat if c[1][0] == ag], input=info))
        if not out and not SEM.states_equal(st, final_seq):
            out.append(Failure(clause="executing the joint plan reaches the final state of the sequential plan", expected=str(final_seq), observed=str(st), input=info))
        return out[:3]


HARNESSES = [Conversion()]

# ---- deductive: the admission test of the converter (when may the next action join the joint action under construction) --------------
# A `True` answer of _validate_well_defined_joint_action implies: the executing agent's slot still holds a nop (at most one action per
# agent per step, slot = position of the agent in the given agent list), with the concurrency constraint on no object is shared with
# the actions already in the step, and the action is applicable in the step's pre-state.  (Interference of effects is delegated to
# _validate_well_defined_action_insertion, which stays bounded — see the known finding.)
import z3 as _z3
from pyvc.core import Val as _Val
from pyvc.sorts import I as _I, Q as _Q, B as _B
from contracts.c16 import _call_app as _c16_call_app, _h_op_applicable as _c16_op_applicable
_PC = "multi_agent.single_agent_plan_converter:PlanConverter."
_OPK = "models.pddl_operator:Operator."
_jparams = _z3.Function("joint_parameters_of", _I, _Q)


def _h_call_applicable(interp, st, a):
    """call_applicable(domain, call, state): the schema registered under the call's name, with the call's arguments, is applicable"""
    dom, call, state = a
    name = interp.read_field(st, call, "ActionCall", "name")
    params = interp.read_field(st, _Val(interp.read_field(st, call, "ActionCall", "parameters").t, ("ref", "list_str")), "list_str", "items")
    acts = interp.read_field(st, dom, "Domain", "actions")
    amap = interp.read_field(st, _Val(acts.t, ("ref", "dict_str_ref")), "dict_str_ref", "map")
    return _Val(_c16_call_app(_z3.Select(amap.t, name.t), params.t, state.t), "bool")


def _h_index_of(interp, st, a):
    items = interp.seq_of(st, a[0])
    return _Val(_z3.IndexOf(items.t, _z3.Unit(a[1].t), _z3.IntVal(0)), "int")


_C15_HOOKS = {"op_applicable": _c16_op_applicable, "call_applicable": _h_call_applicable, "index_of": _h_index_of,
              "joint_parameters_of": lambda interp, st, a: _Val(_jparams(a[0].t), ("seq", "str"))}
_LS = ("ref", "list_str")
_SLOT = "seq(combined_actions)[index_of(agent_names, next_executing_agent)]"
CONTRACTS[_OPK + "ground"] = dict(prop="C03", assumed=True, params={"self": ("ref", "Operator")}, returns="none", ensures=["self.grounded"],
                                  raises={"KeyError": "True"},
                                  modifies=["Operator.grounded_preconditions[self]", "Operator.grounded_effects[self]", "Operator.grounded[self]"])
CONTRACTS[_OPK + "is_applicable"] = dict(
    prop="C02", assumed=True, params={"self": ("ref", "Operator"), "state": ("ref", "State")}, returns="bool",
    ensures=["result == op_applicable(self, state)"], raises={"KeyError": "True"},
    modifies=["Operator.grounded_preconditions[self]", "Operator.grounded_effects[self]", "Operator.grounded[self]"], spec_hooks=_C15_HOOKS)
CONTRACTS["models.action_call:JointActionCall.joint_parameters"] = dict(
    prop="C15", assumed=True, params={"self": ("ref", "JointActionCall")}, returns=("seq", "str"), allocates=False,
    ensures=["result == joint_parameters_of(self.actions)"], raises={}, modifies=[], spec_hooks=_C15_HOOKS)
CONTRACTS[_PC + "_validate_well_defined_action_insertion"] = dict(
    prop="C15", assumed=True, params={"self": ("ref", "PlanConverter"), "combined_actions": ("ref", "list_ActionCall"), "next_action": ("ref", "Operator")},
    returns="bool", ensures=[], raises={"KeyError": "True"}, modifies=[])
CONTRACTS[_PC + "_validate_well_defined_joint_action"] = dict(
    prop="C15",
    params={"self": ("ref", "PlanConverter"), "current_state": ("ref", "State"), "combined_actions": ("ref", "list_ActionCall"),
            "next_action": ("ref", "ActionCall"), "next_executing_agent": "str", "agent_names": _LS, "should_validate_concurrency_constraint": "bool"},
    returns="bool", dict_values={"dict_str_ref": "Action"},
    requires=["allocated(self)", "allocated(self.ma_domain)", "allocated(self.ma_domain.actions)", "allocated(current_state)", "allocated(combined_actions)",
              "allocated(next_action)", "allocated(next_action.parameters)", "allocated(agent_names)"],
    ensures=[
        # admitted only into a slot that still holds a nop: the slot is the position of the executing agent in the given agent list
        f"implies(result, next_executing_agent in seq(agent_names) and index_of(agent_names, next_executing_agent) < len(combined_actions) and {_SLOT}.name == 'nop')",
        # with the concurrency constraint on, no object of the new action is used by the actions already in the step
        "implies(result and should_validate_concurrency_constraint, forall_str(lambda x: not (x in joint_parameters_of(combined_actions) and x in seq(next_action.parameters))))",
        # admitted only if applicable in the step's pre-state
        "implies(result, call_applicable(self.ma_domain, next_action, current_state))",
        # the inputs are not written
        "seq(combined_actions) == old(seq(combined_actions))", "seq(agent_names) == old(seq(agent_names))", "next_action.name == old(next_action.name)"],
    raises={"ValueError": "next_executing_agent not in seq(agent_names)", "IndexError": "index_of(agent_names, next_executing_agent) >= len(combined_actions)",
            "KeyError": "True"},
    modifies=[],
    calls={"Operator.ground": _OPK + "ground", "Operator.is_applicable": _OPK + "is_applicable",
           "JointActionCall.joint_parameters": "models.action_call:JointActionCall.joint_parameters",
           "self._validate_well_defined_action_insertion": _PC + "_validate_well_defined_action_insertion"},
    spec_hooks=_C15_HOOKS)
