"""C05 — problem text is parsed faithfully and ill-formed facts are rejected (bounded differential against spec sem_problem)."""
import itertools
import random
from pyvc.bounded import Harness, Failure
from spec import pddl_sem as PS, gen as G, repo_api as RA, sexp as SX, views as V

CONTRACTS = {
    "lisp_parsers.problem_parser:ProblemParser.parse_domain_name": dict(
        prop="C05", params={"self": ("ref", "ProblemParser"), "domain_name": "str"}, returns="none", allocates=False,
        # a problem that names a different domain is rejected with an error - and only then
        ensures=["domain_name == self.domain.name"],
        raises={"ValueError": "domain_name != self.domain.name"}, must_raise=["domain_name != self.domain.name"], modifies=[]),
}
LEVEL = "other"
EXPLANATION = ("bounded stand-in: for generated problems over the generator domain the parsed Problem's view (objects with types, initial "
               "facts, fluent values, goal literals, numeric goals) equals an independent reading of the text, and every single-point "
               "corruption (unknown predicate/function/object/type, wrong arity, non-conforming type, other domain name) is rejected.")
TRUSTED = ["spec/pddl_sem.py:sem_problem (independent reading incl. the type check against the declared type tree)"]
ASSUMPTIONS = ["bounded: object-list shapes, fact/fluent/goal lists and corruptions enumerated in contracts/c05.py", "float(token) trusted for numerals"]

DOMAIN = G.domain_text([("act", "?x - a ?y - a", "(and (p ?x))", "(and (q ?y))")], with_const=True).replace(
    "(:predicates ", "(:predicates (bt ?x - a ?y - a ?z - b) ").replace("(:functions ", "(:functions (ft ?x - a ?y - a ?z - b) ")
OBJECT_LISTS = ["o1 - a o2 - b", "o1 o3 - a o2 - b", "o2 - b o1 - a o4", "o1 o2", "o1 - a", "", "o1 - a (:private o5 - b o6 - a) o2 - b",
                "o1 - object o2 - b"]
INITS = [[], ["(p o1)"], ["(p o1)", "(q o2)", "(r o1 o2)", "(g)"], ["(r o1 o1)"], ["(p k)", "(r k o1)"], ["(s o2)"],
         ["(= (f o1) 3)", "(= (c) 0)"], ["(= (f o2) -2.5)", "(= (c) 1e2)", "(p o2)"], ["(= (f k) 0.125)"], ["(= (c) 7)", "(g)"],
         ["(= (f o1) 1234567.5)", "(= (c) 0.0001234567)", "(= (f o2) -98765.4321)"],
         ["(bt o1 o1 o2)", "(bt o2 o2 o2)"], ["(bt o1 o1 o1)"], ["(bt o1 o2 o2)", "(bt o2 o1 o2)"], ["(bt o2 o2 o1)"],
         ["(= (ft o1 o1 o2) 1)"], ["(= (ft o1 o1 o1) 1)"], ["(= (ft o2 o2 o1) 1)"],
         ["(= (d o1 o1) 4)", "(= (d o1 o2) 1)"], ["(= (d o2 o2) 2)", "(= (d o2 o1) 3)", "(= (d o1 o1) 5)"]]
GOALS = [[], ["(p o1)"], ["(q o2)", "(g)"], ["(>= (f o1) 2)"], ["(p o1)", "(<= (+ (f o1) (c)) 10)"], ["(= (c) 3)"], ["(r o1 o1)"], ["(>= (d o1 o1) 3)"], ["(< (d o1 o2) (d o2 o1))"]]
CORRUPT_INIT = ["(zz o1)", "(p)", "(p o1 o2)", "(p nobody)", "(s o1)", "(= (zz o1) 1)", "(= (f) 1)", "(= (f o1 o2) 1)", "(= (f nobody) 1)",
                "(= (f o1) abc)", "(= (f o1))", "(r o1)", "(p (o1))"]
CORRUPT_GOAL = ["(zz o1)", "(p o1 o2)", "(p nobody)", "(s o1)", "(>= (zz) 1)", "(>= (f o1 o2) 1)"]


def _problem_text(objs, init, goal, domain_name="gen", goal_wrap=True):
    g = f"(and {' '.join(goal)})" if goal_wrap else " ".join(goal)
    return f"(define (problem prob1) (:domain {domain_name})\n (:objects {objs})\n (:init {' '.join(init)})\n (:goal {g}))"


class ProblemFidelity(Harness):
    name = "c05-fidelity"
    prop = "C05"
    shards = 4
    functions = ("ProblemParser.parse_problem", "ProblemParser.parse_objects", "ProblemParser.parse_initial_state", "ProblemParser.parse_state_component",
                 "ProblemParser.parse_grounded_predicate", "ProblemParser.parse_grounded_numeric_fluent", "ProblemParser._validate_object_types",
                 "ProblemParser.parse_goal_state", "ProblemParser.parse_domain_name")
    bound = {"quick": "8 object-list shapes (typed, grouped, trailing untyped, wholly untyped, empty, private sublist) x 10 init lists x 7 goal lists (type-incompatible combinations become rejection cases); 13 init and 6 goal single-point corruptions on 2 object lists; wrong domain name",
             "thorough": "same"}
    rule = "cartesian product of the listed shapes; non-trivial = at least one init or goal component; distinct by text"

    def inputs(self, tier, seed):
        for o, i, g in itertools.product(OBJECT_LISTS, INITS, GOALS):
            yield {"text": _problem_text(o, i, g)}
        for o in OBJECT_LISTS[:2]:
            for c in CORRUPT_INIT:
                yield {"text": _problem_text(o, ["(p o1)", c, "(q o2)"], ["(p o1)"])}
            for c in CORRUPT_GOAL:
                yield {"text": _problem_text(o, ["(p o1)"], ["(p o1)", c])}
        yield {"text": _problem_text(OBJECT_LISTS[0], ["(p o1)"], ["(p o1)"], domain_name="other")}
        yield {"text": _problem_text("o1 - zz", [], [])}
        yield {"text": _problem_text(OBJECT_LISTS[0], ["(p o1)"], ["(p o1)"], goal_wrap=False)}

    def nontrivial_key(self, inp):
        return inp["text"] if "(p " in inp["text"] or "(= " in inp["text"] else None

    def check(self, inp):
        self.cases += 1
        dom = RA.parse_domain_text(DOMAIN)
        dspec = PS.sem_domain(SX.read_text(DOMAIN))
        ast_ = SX.read_text(inp["text"])
        try:
            exp = PS.sem_problem(ast_, dspec)
            why = None
        except PS.Malformed as ex:
            exp, why = None, f"malformed: {ex}"
        except PS.Unrepresentable as ex:
            exp, why = "either", f"unrepresentable: {ex}"
        got = RA.outcome(RA.parse_problem_text, inp["text"], dom)
        if exp == "either":
            return []          # outside the fragment: faithful-or-exception; nothing silent to compare against here
        if exp is None:
            if got[0] == "ok":
                return [Failure(clause=f"ill-formed problem is rejected ({why})", expected="exception", observed="accepted: " + str(V.v_problem(got[1]))[:300])]
            return []
        if got[0] != "ok":
            return [Failure(clause="well-formed problem is accepted", expected="problem", observed=got)]
        v = V.v_problem(got[1])
        out = []
        # objects: last declaration of a name wins, order of first occurrence
        eo = {}
        for n, t in exp["objects"]:
            eo[n] = t
        if dict(v["objects"]) != eo:
            out.append(Failure(clause="parsed objects (names and types) == declared objects", expected=sorted(eo.items()), observed=sorted(v["objects"])))
        if v["name"] != exp["name"]:
            out.append(Failure(clause="problem name", expected=exp["name"], observed=v["name"]))
        if v["facts"] != exp["facts"]:
            out.append(Failure(clause="initial facts == listed facts", expected=sorted(exp["facts"]), observed=sorted(v["facts"]),
                               cls="repeated-argument-ground" if any(len(set(a)) != len(a) for _, a in exp["facts"]) else None))
        if v["fluents"] != exp["fluents"]:
            out.append(Failure(clause="initial fluent values == listed values", expected=str(exp["fluents"]), observed=str(v["fluents"])))
        if sorted(v["goal_lits"]) != sorted(exp["goal_lits"]):
            out.append(Failure(clause="goal literals == listed literals", expected=sorted(exp["goal_lits"]), observed=sorted(v["goal_lits"]),
                               cls="repeated-argument-ground" if any(len(set(a)) != len(a) for _, a in exp["goal_lits"]) else None))
        if sorted(map(str, v["goal_num"])) != sorted(map(str, exp["goal_num"])):
            out.append(Failure(clause="numeric goal conditions == listed conditions", expected=str(exp["goal_num"]), observed=str(v["goal_num"])))
        return out


HARNESSES = [ProblemFidelity()]
