"""C05 — problem text is parsed faithfully and ill-formed facts are rejected (bounded differential against spec sem_problem)."""
import itertools
import random
from pyvc.bounded import Harness, Failure
from spec import pddl_sem as PS, gen as G, repo_api as RA, sexp as SX, views as V

CONTRACTS = {
    "lisp_parsers.problem_parser:ProblemParser.parse_domain_name": dict(
        prop="C05", params={"self": ("ref", "ProblemParser"), "domain_name": "str"}, returns="none", allocates=False,
        # a problem that names a different domain is rejected with an error - and only then
        ensures=["domain_name == self.domain.name"],
        raises={"ValueError": "domain_name != self.domain.name"}, must_raise=["domain_name != self.domain.name"], modifies=[]),
}
LEVEL = "other"
EXPLANATION = ("bounded stand-in: for generated problems over the generator domain the parsed Problem's view (objects with types, initial "
               "facts, fluent values, goal literals, numeric goals) equals an independent reading of the text, and every single-point "
               "corruption (unknown predicate/function/object/type, wrong arity, non-conforming type, other domain name) is rejected.")
TRUSTED = ["spec/pddl_sem.py:sem_problem (independent reading incl. the type check against the declared type tree)"]
ASSUMPTIONS = ["bounded: object-list shapes, fact/fluent/goal lists and corruptions enumerated in contracts/c05.py", "float(token) trusted for numerals"]

DOMAIN = G.domain_text([("act", "?x - a ?y - a", "(and (p ?x))", "(and (q ?y))")], with_const=True).replace(
    "(:predicates ", "(:predicates (bt ?x - a ?y - a ?z - b) (ba ?x - b ?y - a) ").replace("(:functions ", "(:functions (ft ?x - a ?y - a ?z - b) ")
OBJECT_LISTS = ["o1 - a o2 - b", "o1 o3 - a o2 - b", "o2 - b o1 - a o4", "o1 o2", "o1 - a", "", "o1 - a (:private o5 - b o6 - a) o2 - b",
                "o1 - object o2 - b"]
INITS = [[], ["(p o1)"], ["(p o1)", "(q o2)", "(r o1 o2)", "(g)"], ["(r o1 o1)"], ["(p k)", "(r k o1)"], ["(s o2)"],
         ["(= (f o1) 3)", "(= (c) 0)"], ["(= (f o2) -2.5)", "(= (c) 1e2)", "(p o2)"], ["(= (f k) 0.125)"], ["(= (c) 7)", "(g)"],
         ["(= (f o1) 1234567.5)", "(= (c) 0.0001234567)", "(= (f o2) -98765.4321)"],
         ["(bt o1 o1 o2)", "(bt o2 o2 o2)"], ["(bt o1 o1 o1)"], ["(bt o1 o2 o2)", "(bt o2 o1 o2)"], ["(bt o2 o2 o1)"],
         ["(= (ft o1 o1 o2) 1)"], ["(= (ft o1 o1 o1) 1)"], ["(= (ft o2 o2 o1) 1)"],
         ["(ba o2 o1)", "(ba o2 o2)"],
         ["(= (d o1 o1) 4)", "(= (d o1 o2) 1)"], ["(= (d o2 o2) 2)", "(= (d o2 o1) 3)", "(= (d o1 o1) 5)"]]
GOALS = [[], ["(p o1)"], ["(q o2)", "(g)"], ["(>= (f o1) 2)"], ["(p o1)", "(<= (+ (f o1) (c)) 10)"], ["(= (c) 3)"], ["(r o1 o1)"], ["(>= (d o1 o1) 3)"], ["(< (d o1 o2) (d o2 o1))"]]
CORRUPT_INIT = ["(ba o1 o1)", "(ba o1 o2)", "(bt o1 o1 o1)", "(zz o1)", "(p)", "(p o1 o2)", "(p nobody)", "(s o1)", "(= (zz o1) 1)", "(= (f) 1)", "(= (f o1 o2) 1)", "(= (f nobody) 1)",
                "(= (f o1) abc)", "(= (f o1))", "(r o1)", "(p (o1))"]
CORRUPT_GOAL = ["(ba o1 o1)", "(zz o1)", "(p o1 o2)", "(p nobody)", "(s o1)", "(>= (zz) 1)", "(>= (f o1 o2) 1)"]


def random_problems(rnd, n):
    """random well-typed problems over the generator domain: random subsets of facts, fluents with random values (negative, fractional,
    many digits, exponent notation), random goals"""
    objs = "o1 o3 - a o2 o4 - b"
    A, Bs = ["o1", "o3", "k"], ["o2", "o4"]
    allo = A + Bs
    for _ in range(n):
        init, goal = [], []
        for a in allo:
            if rnd.random() < 0.4:
                init.append(f"(p {a})")
            if rnd.random() < 0.3:
                init.append(f"(q {a})")
            if rnd.random() < 0.3:
                v = rnd.choice([rnd.randint(-50, 50), round(rnd.uniform(-1000, 1000), rnd.randint(1, 9)), rnd.choice(["1e3", "-2.5e-3", "0.0", "7."])])
                init.append(f"(= (f {a}) {v})")
        for a in allo:
            for b in allo:
                if rnd.random() < 0.12:
                    init.append(f"(r {a} {b})")
                if rnd.random() < 0.08:
                    init.append(f"(= (d {a} {b}) {round(rnd.uniform(-9, 9), rnd.randint(0, 6))})")
        for b in Bs:
            if rnd.random() < 0.4:
                init.append(f"(s {b})")
        if rnd.random() < 0.5:
            init.append("(g)")
        if rnd.random() < 0.6:
            init.append(f"(= (c) {rnd.choice([0, 1, -3, 2.75, 123456.789])})")
        for x, y, z in [(rnd.choice(A), rnd.choice(A), rnd.choice(Bs)) for _ in range(rnd.randint(0, 2))]:
            init.append(f"(bt {x} {y} {z})")
            if rnd.random() < 0.5:
                init.append(f"(= (ft {x} {y} {z}) {rnd.randint(-5, 5)})")
        for _ in range(rnd.randint(0, 3)):
            goal.append(rnd.choice([f"(p {rnd.choice(allo)})", f"(r {rnd.choice(allo)} {rnd.choice(allo)})", "(g)", f"(>= (f {rnd.choice(allo)}) {rnd.randint(-3, 3)})",
                                    f"(< (d {rnd.choice(allo)} {rnd.choice(allo)}) (c))", f"(= (c) {rnd.choice([0, 2.5])})"]))
        init = list(dict.fromkeys(init))
        goal = list(dict.fromkeys(goal))
        yield _problem_text(objs, init, goal)


def _problem_text(objs, init, goal, domain_name="gen", goal_wrap=True):
    g = f"(and {' '.join(goal)})" if goal_wrap else " ".join(goal)
    return f"(define (problem prob1) (:domain {domain_name})\n (:objects {objs})\n (:init {' '.join(init)})\n (:goal {g}))"


class ProblemFidelity(Harness):
    name = "c05-fidelity"
    prop = "C05"
    shards = 4
    functions = ("ProblemParser.parse_problem", "ProblemParser.parse_objects", "ProblemParser.parse_initial_state", "ProblemParser.parse_state_component",
                 "ProblemParser.parse_grounded_predicate", "ProblemParser.parse_grounded_numeric_fluent", "ProblemParser._validate_object_types",
                 "ProblemParser.parse_goal_state", "ProblemParser.parse_domain_name")
    bound = {"quick": "8 object-list shapes (typed, grouped, trailing untyped, wholly untyped, empty, private sublist) x 10 init lists x 7 goal lists (type-incompatible combinations become rejection cases); 13 init and 6 goal single-point corruptions on 2 object lists; wrong domain name",
             "thorough": "same plus 1,500 seeded random problems (random fact subsets, fluent values, goals)"}
    rule = "cartesian product of the listed shapes; non-trivial = at least one init or goal component; distinct by text"

    def inputs(self, tier, seed):
        for o, i, g in itertools.product(OBJECT_LISTS, INITS, GOALS):
            yield {"text": _problem_text(o, i, g)}
        for o in OBJECT_LISTS[:2]:
            for c in CORRUPT_INIT:
                yield {"text": _problem_text(o, ["(p o1)", c, "(q o2)"], ["(p o1)"])}
            for c in CORRUPT_GOAL:
                yield {"text": _problem_text(o, ["(p o1)"], ["(p o1)", c])}
        yield {"text": _problem_text(OBJECT_LISTS[0], ["(p o1)"], ["(p o1)"], domain_name="other")}
        yield {"text": _problem_text("o1 - zz", [], [])}
        yield {"text": _problem_text(OBJECT_LISTS[0], ["(p o1)"], ["(p o1)"], goal_wrap=False)}
        if tier == "thorough":
            for t in random_problems(random.Random(seed + 5), 1500):
                yield {"text": t}

    def nontrivial_key(self, inp):
        return inp["text"] if "(p " in inp["text"] or "(= " in inp["text"] else None

    def check(self, inp):
        self.cases += 1
        dom = RA.parse_domain_text(DOMAIN)
        dspec = PS.sem_domain(SX.read_text(DOMAIN))
        ast_ = SX.read_text(inp["text"])
        try:
            exp = PS.sem_problem(ast_, dspec)
            why = None
        except PS.Malformed as ex:
            exp, why = None, f"malformed: {ex}"
        except PS.Unrepresentable as ex:
            exp, why = "either", f"unrepresentable: {ex}"
        got = RA.outcome(RA.parse_problem_text, inp["text"], dom)
        if exp == "either":
            return []          # outside the fragment: faithful-or-exception; nothing silent to compare against here
        if exp is None:
            if got[0] == "ok":
                return [Failure(clause=f"ill-formed problem is rejected ({why})", expected="exception", observed="accepted: " + str(V.v_problem(got[1]))[:300])]
            return []
        if got[0] != "ok":
            return [Failure(clause="well-formed problem is accepted", expected="problem", observed=got)]
        v = V.v_problem(got[1])
        out = []
        # objects: last declaration of a name wins, order of first occurrence
        eo = {}
        for n, t in exp["objects"]:
            eo[n] = t
        if dict(v["objects"]) != eo:
            out.append(Failure(clause="parsed objects (names and types) == declared objects", expected=sorted(eo.items()), observed=sorted(v["objects"])))
        if v["name"] != exp["name"]:
            out.append(Failure(clause="problem name", expected=exp["name"], observed=v["name"]))
        if v["facts"] != exp["facts"]:
            out.append(Failure(clause="initial facts == listed facts", expected=sorted(exp["facts"]), observed=sorted(v["facts"]),
                               cls="repeated-argument-ground" if any(len(set(a)) != len(a) for _, a in exp["facts"]) else None))
        if v["fluents"] != exp["fluents"]:
            out.append(Failure(clause="initial fluent values == listed values", expected=str(exp["fluents"]), observed=str(v["fluents"])))
        if sorted(v["goal_lits"]) != sorted(exp["goal_lits"]):
            out.append(Failure(clause="goal literals == listed literals", expected=sorted(exp["goal_lits"]), observed=sorted(v["goal_lits"]),
                               cls="repeated-argument-ground" if any(len(set(a)) != len(a) for _, a in exp["goal_lits"]) else None))
        if sorted(map(str, v["goal_num"])) != sorted(map(str, exp["goal_num"])):
            out.append(Failure(clause="numeric goal conditions == listed conditions", expected=str(exp["goal_num"]), observed=str(v["goal_num"])))
        return out


HARNESSES = [ProblemFidelity()]

# ---- deductive: the accept / reject boundary of the type check (uses the proved contract of PDDLType.is_sub_type, C06) ----------
import z3
from pyvc.core import Val
from contracts.c06 import HOOKS as _C06_HOOKS, CONTRACTS as _C06_CONTRACTS
PP = "lisp_parsers.problem_parser:ProblemParser."
_ITEM = "seq(predicate_signature_items)[{i}]"


def _type_of(interp, st, parser, item):
    """declared type of an argument: the domain constant's type if the name is a constant, otherwise the problem object's type"""
    prob = interp.read_field(st, parser, "ProblemParser", "problem")
    dom = interp.read_field(st, parser, "ProblemParser", "domain")
    objs = Val(interp.read_field(st, Val(prob.t, ("ref", "Problem")), "Problem", "objects").t, ("ref", "dict_PDDLObject"))
    consts = Val(interp.read_field(st, Val(dom.t, ("ref", "Domain")), "Domain", "constants").t, ("ref", "dict_PDDLObject"))
    ok = interp.read_field(st, objs, "dict_PDDLObject", "keys").t
    om = interp.read_field(st, objs, "dict_PDDLObject", "map").t
    ck = interp.read_field(st, consts, "dict_PDDLObject", "keys").t
    cm = interp.read_field(st, consts, "dict_PDDLObject", "map").t
    obj = z3.If(z3.Contains(ck, z3.Unit(item.t)), z3.Select(cm, item.t), z3.Select(om, item.t))
    known = z3.Or(z3.Contains(ck, z3.Unit(item.t)), z3.Contains(ok, z3.Unit(item.t)))
    ty = interp.read_field(st, Val(obj, ("ref", "PDDLObject")), "PDDLObject", "type")
    return known, ty


def _h_known(interp, st, a):
    return Val(_type_of(interp, st, a[0], a[1])[0], "bool")


def _h_conforms(interp, st, a):
    """conforms(parser, item, required_type): the argument's declared type is a subtype of the required type (ancestor test by name)"""
    from pyvc.sorts import anc
    _, ty = _type_of(interp, st, a[0], a[1])
    N = interp.heap_arr(st, "PDDLType", "name", "str")
    P = interp.heap_arr(st, "PDDLType", "parent", ("ref", "PDDLType"))
    return Val(anc(N, P, ty.t, z3.Select(N, a[2].t)), "bool")


def _h_heap_closed(interp, st, a):
    """objects and constants map their names to allocated PDDLObject objects whose type is an allocated PDDLType"""
    from pyvc.sorts import I, S
    parser = a[0]
    prob = interp.read_field(st, parser, "ProblemParser", "problem")
    dom = interp.read_field(st, parser, "ProblemParser", "domain")
    out = []
    for holder, cls, fld in ((prob, "Problem", "objects"), (dom, "Domain", "constants")):
        d = Val(interp.read_field(st, Val(holder.t, ("ref", cls)), cls, fld).t, ("ref", "dict_PDDLObject"))
        ks = interp.read_field(st, d, "dict_PDDLObject", "keys").t
        mp = interp.read_field(st, d, "dict_PDDLObject", "map").t
        k = z3.Const(f"k!hc{fld}", S)
        o = z3.Select(mp, k)
        ty = z3.Select(interp.heap_arr(st, "PDDLObject", "type", ("ref", "PDDLType")), o)
        out.append(z3.And(d.t >= 1, d.t <= st.top))
        out.append(z3.ForAll([k], z3.Implies(z3.Contains(ks, z3.Unit(k)), z3.And(o >= 1, o <= st.top, ty >= 1, ty <= st.top))))
    return Val(z3.And(*out), "bool")


_C05_HOOKS = dict(_C06_HOOKS, known=_h_known, conforms=_h_conforms, heap_closed=_h_heap_closed)
_SIGT = "lifted_predicate.signature[lifted_predicate.signature.keys()[{i}]]"
CONTRACTS["models.pddl_type:PDDLType.is_sub_type"] = dict(_C06_CONTRACTS["models.pddl_type:PDDLType.is_sub_type"], prop="C06")
CONTRACTS[PP + "_validate_object_types"] = dict(
    prop="C05",
    params={"self": ("ref", "ProblemParser"), "lifted_predicate": ("ref", "Predicate"), "predicate_signature_items": ("seq", "str")},
    returns="none", dict_values={"dict_str_ref": "PDDLType"},
    locals={},
    requires=["chain_wf()", "heap_closed(self)",
              "forall_int(lambda i: forall_int(lambda j: implies(i != j, self.problem.objects.keys()[i] != self.problem.objects.keys()[j]), 0, "
              "len(self.problem.objects.keys())), 0, len(self.problem.objects.keys()))", "allocated(self.problem)", "allocated(self.domain)", "allocated(lifted_predicate.signature)",
              "len(predicate_signature_items) == len(lifted_predicate.signature.keys())",
              "forall_int(lambda i: allocated(" + _SIGT.format(i="i") + "), 0, len(lifted_predicate.signature.keys()))"],
    # accepted exactly when every argument is a declared object / constant whose type is a subtype of the required type
    ensures=["forall_int(lambda i: known(self, " + _ITEM.format(i="i") + ") and conforms(self, " + _ITEM.format(i="i") + ", " + _SIGT.format(i="i") + "), 0, len(predicate_signature_items))"],
    raises={"KeyError": "exists_int(lambda i: not known(self, " + _ITEM.format(i="i") + "), 0, len(predicate_signature_items))",
            "AssertionError": "exists_int(lambda i: known(self, " + _ITEM.format(i="i") + ") and not conforms(self, " + _ITEM.format(i="i") + ", " + _SIGT.format(i="i") + "), 0, len(predicate_signature_items))"},
    modifies=[],
    calls={"PDDLType.is_sub_type": "models.pddl_type:PDDLType.is_sub_type"},
    loops={0: dict(invariants=["forall_int(lambda j: anc(_seq[j], " + _SIGT.format(i="j") + ".name), 0, _i)"], modifies=[])},
    spec_hooks=_C05_HOOKS)

# ---- deductive: parse_objects implements the typed-list reading of the object list (with nested private lists) ------------------------
# The specification is the same left-to-right fold as for constants (contracts/c06.py: tl_*), over a list of expressions whose items
# may be nested `(:private ...)` lists: an item that is a list contributes the objects of its own tail.
import z3 as _z3
from pyvc.core import Val as _Val
from pyvc.sorts import I as _I, S as _S, B as _B, SExp as _SExp, SList as _SList, OPAQUE_FUNCS as _OPQ
_snth, _slen, _srest = _OPQ["snth"], _OPQ["slen"], _OPQ["srest"]
ol_mark = _z3.RecFunction("ol_mark", _SList, _I, _B)
ol_pend = _z3.RecFunction("ol_pend", _SList, _S, _I, _B)
ol_has = _z3.RecFunction("ol_has", _SList, _S, _I, _B)
ol_type = _z3.RecFunction("ol_type", _SList, _S, _I, _S)
_l, _s, _i = _z3.Const("ol_l", _SList), _z3.Const("ol_s", _S), _z3.Int("ol_i")
_tok = _snth(_l, _i - 1)
_DASH = _SExp.Atom(_z3.StringVal("-"))
_sub = _srest(_SExp.items(_tok))
_sub_has = _z3.Or(ol_has(_sub, _s, _slen(_sub)), ol_pend(_sub, _s, _slen(_sub)))
_sub_type = _z3.If(ol_pend(_sub, _s, _slen(_sub)), _z3.StringVal("object"), ol_type(_sub, _s, _slen(_sub)))
from pyvc.sorts import rec_define
rec_define(ol_mark, [_l, _i], _z3.If(_i <= 0, False, _z3.If(ol_mark(_l, _i - 1), False, _tok == _DASH)))
rec_define(ol_pend, [_l, _s, _i], _z3.If(_i <= 0, False, _z3.If(ol_mark(_l, _i - 1), False,
                     _z3.If(_z3.Or(_SExp.is_Lst(_tok), _tok == _DASH), ol_pend(_l, _s, _i - 1), _z3.Or(ol_pend(_l, _s, _i - 1), _tok == _SExp.Atom(_s))))))
rec_define(ol_has, [_l, _s, _i], _z3.If(_i <= 0, False, _z3.If(ol_mark(_l, _i - 1), _z3.Or(ol_has(_l, _s, _i - 1), ol_pend(_l, _s, _i - 1)),
                     _z3.If(_SExp.is_Lst(_tok), _z3.Or(ol_has(_l, _s, _i - 1), _sub_has), ol_has(_l, _s, _i - 1)))))
rec_define(ol_type, [_l, _s, _i], _z3.If(_i <= 0, _z3.StringVal(""),
                     _z3.If(_z3.And(ol_mark(_l, _i - 1), ol_pend(_l, _s, _i - 1)), _SExp.s(_tok),
                            _z3.If(_z3.And(_z3.Not(ol_mark(_l, _i - 1)), _SExp.is_Lst(_tok), _sub_has), _sub_type, ol_type(_l, _s, _i - 1)))))
_osize = _z3.Function("ol_size", _SList, _I)
OL_HOOKS = dict(
    _C05_HOOKS,
    ol_mark=lambda interp, st, a: _Val(ol_mark(a[0].t, a[1].t), "bool"),
    ol_pend=lambda interp, st, a: _Val(ol_pend(a[0].t, a[1].t, a[2].t), "bool"),
    ol_has=lambda interp, st, a: _Val(ol_has(a[0].t, a[1].t, a[2].t), "bool"),
    ol_type=lambda interp, st, a: _Val(ol_type(a[0].t, a[1].t, a[2].t), "str"),
    ol_size=lambda interp, st, a: _Val(_osize(a[0].t), "int"),
    is_list=lambda interp, st, a: _Val(_SExp.is_Lst(a[0].t), "bool"),
    atom=lambda interp, st, a: _Val(_SExp.s(a[0].t), "str"),
    items=lambda interp, st, a: _Val(_SExp.items(a[0].t), "slist"),
)
_N = "slen(objects_ast)"
_T = "self.domain.types"
_BAD = f"exists_int(lambda j: ol_mark(objects_ast, j) and not is_list(snth(objects_ast, j)) and atom(snth(objects_ast, j)) not in {_T}, 0, {_N})"
CONTRACTS[PP + "parse_objects"] = dict(
    prop="C05", shards=6,
    params={"self": ("ref", "ProblemParser"), "objects_ast": "slist"},
    locals={"problem_objects": ("ref", "dict_PDDLObject"), "same_type_objects": ("seq", "str"), "private_objects": ("ref", "dict_PDDLObject")},
    returns=("ref", "dict_PDDLObject"), dictcomp_duplicates=True, opaque_funcs=("snth", "slen", "sfirst", "srest"),
    # assumed lemmas about the hidden list functions: a length is not negative; the tail of a nested item is smaller than the list
    axioms=["forall_slist(lambda l: slen(l) >= 0 and ol_size(l) >= 0)",
            "forall_int(lambda j: ol_size(srest(items(snth(objects_ast, j)))) < ol_size(objects_ast), 0, slen(objects_ast))"],
    decreases="ol_size(objects_ast)",
    requires=["allocated(self)", "allocated(self.domain)", f"allocated({_T})"],
    ensures=[
        "fresh(result)",
        # exactly the declared names (of this list and of its nested private lists) ...
        f"forall_str(lambda s: (s in result) == (ol_has(objects_ast, s, {_N}) or ol_pend(objects_ast, s, {_N})))",
        # ... each an object carrying its name and the type object registered under the declared type name ('object' for trailing names)
        f"forall_str(lambda s: implies(s in result, fresh(result[s]) and result[s].name == s and result[s].type == "
        f"{_T}[('object' if ol_pend(objects_ast, s, {_N}) else ol_type(objects_ast, s, {_N}))]))"],
    # (errors may also come from a nested private list, hence no sharper "only when" for them; KeyError needs a missing default type)
    raises={"ValueError": "True", "KeyError": f"'object' not in {_T}", "IndexError": "True", "TypeError": "True"},
    # an undeclared type name after a dash of this list is never accepted
    must_raise=[_BAD],
    modifies=[],
    calls={"self.parse_objects": PP + "parse_objects"},
    loops={0: dict(invariants=[
        "fresh(problem_objects)", f"0 <= iterator and iterator <= {_N}", "not ol_mark(objects_ast, iterator)",
        "forall_str(lambda s: (s in same_type_objects) == ol_pend(objects_ast, s, iterator))",
        "forall_str(lambda s: (s in problem_objects) == ol_has(objects_ast, s, iterator))",
        f"forall_int(lambda j: implies(ol_mark(objects_ast, j) and not is_list(snth(objects_ast, j)), atom(snth(objects_ast, j)) in {_T}), 0, iterator)",
        f"forall_str(lambda s: implies(s in problem_objects, fresh(problem_objects[s]) and problem_objects[s].name == s and problem_objects[s].type == {_T}[ol_type(objects_ast, s, iterator)]))"],
        modifies=["dict_PDDLObject.keys[problem_objects]", "dict_PDDLObject.map[problem_objects]", "PDDLObject.name", "PDDLObject.type"])},
    spec_hooks=OL_HOOKS)

# ---- deductive: parse_grounded_predicate — a fact is accepted exactly when its arity and the types of its arguments fit ----------------
_VOT = CONTRACTS[PP + "_validate_object_types"]
_ARGS = "grounded_predicate_ast[1:]"
_ARG_I = "grounded_predicate_ast[i + 1]"
_SIGK = "lifted_predicate.signature.keys()"
_SIGT2 = "lifted_predicate.signature[lifted_predicate.signature.keys()[i]]"
_ARITY_BAD = f"len(grounded_predicate_ast) - 1 != len({_SIGK})"
_UNKNOWN = f"exists_int(lambda i: not known(self, {_ARG_I}), 0, len({_SIGK}))"
_NONCONF = f"exists_int(lambda i: known(self, {_ARG_I}) and not conforms(self, {_ARG_I}, {_SIGT2}), 0, len({_SIGK}))"
CONTRACTS[PP + "parse_grounded_predicate"] = dict(
    prop="C05",
    params={"self": ("ref", "ProblemParser"), "grounded_predicate_ast": ("seq", "str"), "lifted_predicate": ("ref", "Predicate")},
    locals={"object_mapping": ("ref", "dict_str_str")},
    returns=("ref", "GroundedPredicate"), dict_values={"dict_str_ref": "PDDLType"},
    requires=[r for r in _VOT["requires"] if "predicate_signature_items" not in r] + ["len(grounded_predicate_ast) >= 1", "allocated(lifted_predicate)",
                                                                                    # representation invariant of a signature: pairwise distinct parameter names
                                                                                    f"forall_int(lambda i: forall_int(lambda j: implies(i != j, {_SIGK}[i] != {_SIGK}[j]), 0, len({_SIGK})), 0, len({_SIGK}))"],
    ensures=[
        "fresh(result)", "result.name == lifted_predicate.name", "result.is_positive", "result.signature == lifted_predicate.signature",
        "fresh(result.object_mapping)",
        # the i-th parameter of the declaration is mapped to the i-th argument of the fact
        f"len(result.object_mapping.keys()) == len({_SIGK})",
        f"forall_int(lambda i: result.object_mapping.keys()[i] == {_SIGK}[i] and result.object_mapping[{_SIGK}[i]] == {_ARG_I}, 0, len({_SIGK}))",
        # a fact is only accepted with the declared arity and with declared, type-conforming arguments
        f"len(grounded_predicate_ast) - 1 == len({_SIGK})",
        f"forall_int(lambda i: known(self, {_ARG_I}) and conforms(self, {_ARG_I}, {_SIGT2}), 0, len({_SIGK}))"],
    raises={"ValueError": _ARITY_BAD, "KeyError": _UNKNOWN, "AssertionError": _NONCONF},
    must_raise=[_ARITY_BAD],
    modifies=[],
    calls={"self._validate_object_types": PP + "_validate_object_types"},
    spec_hooks=_C05_HOOKS)
