"""C05 — problem text is parsed faithfully and ill-formed facts are rejected (bounded differential against spec sem_problem)."""
import itertools
import random
from pyvc.bounded import Harness, Failure
from spec import pddl_sem as PS, gen as G, repo_api as RA, sexp as SX, views as V

CONTRACTS = {
    "lisp_parsers.problem_parser:ProblemParser.parse_domain_name": dict(
        prop="C05", params={"self": ("ref", "ProblemParser"), "domain_name": "str"}, returns="none", allocates=False,
        # a problem that names a different domain is rejected with an error - and only then
        ensures=["domain_name == self.domain.name"],
        raises={"ValueError": "domain_name != self.domain.name"}, must_raise=["domain_name != self.domain.name"], modifies=[]),
}
LEVEL = "other"
EXPLANATION = ("bounded stand-in: for generated problems over the generator domain the parsed Problem's view (objects with types, initial "
               "facts, fluent values, goal literals, numeric goals) equals an independent reading of the text, and every single-point "
               "corruption (unknown predicate/function/object/type, wrong arity, non-conforming type, other domain name) is rejected.")
TRUSTED = ["spec/pddl_sem.py:sem_problem (independent reading incl. the type check against the declared type tree)"]
ASSUMPTIONS = ["bounded: object-list shapes, fact/fluent/goal lists and corruptions enumerated in contracts/c05.py", "float(token) trusted for numerals"]

DOMAIN = G.domain_text([("act", "?x - a ?y - a", "(and (p ?x))", "(and (q ?y))")], with_const=True).replace(
    "(:predicates ", "(:predicates (bt ?x - a ?y - a ?z - b) ").replace("(:functions ", "(:functions (ft ?x - a ?y - a ?z - b) ")
OBJECT_LISTS = ["o1 - a o2 - b", "o1 o3 - a o2 - b", "o2 - b o1 - a o4", "o1 o2", "o1 - a", "", "o1 - a (:private o5 - b o6 - a) o2 - b",
                "o1 - object o2 - b"]
INITS = [[], ["(p o1)"], ["(p o1)", "(q o2)", "(r o1 o2)", "(g)"], ["(r o1 o1)"], ["(p k)", "(r k o1)"], ["(s o2)"],
         ["(= (f o1) 3)", "(= (c) 0)"], ["(= (f o2) -2.5)", "(= (c) 1e2)", "(p o2)"], ["(= (f k) 0.125)"], ["(= (c) 7)", "(g)"],
         ["(= (f o1) 1234567.5)", "(= (c) 0.0001234567)", "(= (f o2) -98765.4321)"],
         ["(bt o1 o1 o2)", "(bt o2 o2 o2)"], ["(bt o1 o1 o1)"], ["(bt o1 o2 o2)", "(bt o2 o1 o2)"], ["(bt o2 o2 o1)"],
         ["(= (ft o1 o1 o2) 1)"], ["(= (ft o1 o1 o1) 1)"], ["(= (ft o2 o2 o1) 1)"],
         ["(= (d o1 o1) 4)", "(= (d o1 o2) 1)"], ["(= (d o2 o2) 2)", "(= (d o2 o1) 3)", "(= (d o1 o1) 5)"]]
GOALS = [[], ["(p o1)"], ["(q o2)", "(g)"], ["(>= (f o1) 2)"], ["(p o1)", "(<= (+ (f o1) (c)) 10)"], ["(= (c) 3)"], ["(r o1 o1)"], ["(>= (d o1 o1) 3)"], ["(< (d o1 o2) (d o2 o1))"]]
CORRUPT_INIT = ["(zz o1)", "(p)", "(p o1 o2)", "(p nobody)", "(s o1)", "(= (zz o1) 1)", "(= (f) 1)", "(= (f o1 o2) 1)", "(= (f nobody) 1)",
                "(= (f o1) abc)", "(= (f o1))", "(r o1)", "(p (o1))"]
CORRUPT_GOAL = ["(zz o1)", "(p o1 o2)", "(p nobody)", "(s o1)", "(>= (zz) 1)", "(>= (f o1 o2) 1)"]


def _problem_text(objs, init, goal, domain_name="gen", goal_wrap=True):
    g = f"(and {' '.join(goal)})" if goal_wrap else " ".join(goal)
    return f"(define (problem prob1) (:domain {domain_name})\n (:objects {objs})\n (:init {' '.join(init)})\n (:goal {g}))"


class ProblemFidelity(Harness):
    name = "c05-fidelity"
    prop = "C05"
    shards = 4
    functions = ("ProblemParser.parse_problem", "ProblemParser.parse_objects", "ProblemParser.parse_initial_state", "ProblemParser.parse_state_component",
                 "ProblemParser.parse_grounded_predicate", "ProblemParser.parse_grounded_numeric_fluent", "ProblemParser._validate_object_types",
                 "ProblemParser.parse_goal_state", "ProblemParser.parse_domain_name")
    bound = {"quick": "8 object-list shapes (typed, grouped, trailing untyped, wholly untyped, empty, private sublist) x 10 init lists x 7 goal lists (type-incompatible combinations become rejection cases); 13 init and 6 goal single-point corruptions on 2 object lists; wrong domain name",
             "thorough": "same"}
    rule = "cartesian product of the listed shapes; non-trivial = at least one init or goal component; distinct by text"

    def inputs(self, tier, seed):
        for o, i, g in itertools.product(OBJECT_LISTS, INITS, GOALS):
            yield {"text": _problem_text(o, i, g)}
        for o in OBJECT_LISTS[:2]:
            for c in CORRUPT_INIT:
                yield {"text": _problem_text(o, ["(p o1)", c, "(q o2)"], ["(p o1)"])}
            for c in CORRUPT_GOAL:
                yield {"text": _problem_text(o, ["(p o1)"], ["(p o1)", c])}
        yield {"text": _problem_text(OBJECT_LISTS[0], ["(p o1)"], ["(p o1)"], domain_name="other")}
        yield {"text": _problem_text("o1 - zz", [], [])}
        yield {"text": _problem_text(OBJECT_LISTS[0], ["(p o1)"], ["(p o1)"], goal_wrap=False)}

    def nontrivial_key(self, inp):
        return inp["text"] if "(p " in inp["text"] or "(= " in inp["text"] else None

    def check(self, inp):
        self.cases += 1
        dom = RA.parse_domain_text(DOMAIN)
        dspec = PS.sem_domain(SX.read_text(DOMAIN))
        ast_ = SX.read_text(inp["text"])
        try:
            exp = PS.sem_problem(ast_, dspec)
            why = None
        except PS.Malformed as ex:
            exp, why = None, f"malformed: {ex}"
        except PS.Unrepresentable as ex:
            exp, why = "either", f"unrepresentable: {ex}"
        got = RA.outcome(RA.parse_problem_text, inp["text"], dom)
        if exp == "either":
            return []          # outside the fragment: faithful-or-exception; nothing silent to compare against here
        if exp is None:
            if got[0] == "ok":
                return [Failure(clause=f"ill-formed problem is rejected ({why})", expected="exception", observed="accepted: " + str(V.v_problem(got[1]))[:300])]
            return []
        if got[0] != "ok":
            return [Failure(clause="well-formed problem is accepted", expected="problem", observed=got)]
        v = V.v_problem(got[1])
        out = []
        # objects: last declaration of a name wins, order of first occurrence
        eo = {}
        for n, t in exp["objects"]:
            eo[n] = t
        if dict(v["objects"]) != eo:
            out.append(Failure(clause="parsed objects (names and types) == declared objects", expected=sorted(eo.items()), observed=sorted(v["objects"])))
        if v["name"] != exp["name"]:
            out.append(Failure(clause="problem name", expected=exp["name"], observed=v["name"]))
        if v["facts"] != exp["facts"]:
            out.append(Failure(clause="initial facts == listed facts", expected=sorted(exp["facts"]), observed=sorted(v["facts"]),
                               cls="repeated-argument-ground" if any(len(set(a)) != len(a) for _, a in exp["facts"]) else None))
        if v["fluents"] != exp["fluents"]:
            out.append(Failure(clause="initial fluent values == listed values", expected=str(exp["fluents"]), observed=str(v["fluents"])))
        if sorted(v["goal_lits"]) != sorted(exp["goal_lits"]):
            out.append(Failure(clause="goal literals == listed literals", expected=sorted(exp["goal_lits"]), observed=sorted(v["goal_lits"]),
                               cls="repeated-argument-ground" if any(len(set(a)) != len(a) for _, a in exp["goal_lits"]) else None))
        if sorted(map(str, v["goal_num"])) != sorted(map(str, exp["goal_num"])):
            out.append(Failure(clause="numeric goal conditions == listed conditions", expected=str(exp["goal_num"]), observed=str(v["goal_num"])))
        return out


HARNESSES = [ProblemFidelity()]

# ---- deductive: the accept / reject boundary of the type check (uses the proved contract of PDDLType.is_sub_type, C06) ----------
import z3
from pyvc.core import Val
from contracts.c06 import HOOKS as _C06_HOOKS, CONTRACTS as _C06_CONTRACTS
PP = "lisp_parsers.problem_parser:ProblemParser."
_ITEM = "seq(predicate_signature_items)[{i}]"


def _type_of(interp, st, parser, item):
    """declared type of an argument: the domain constant's type if the name is a constant, otherwise the problem object's type"""
    prob = interp.read_field(st, parser, "ProblemParser", "problem")
    dom = interp.read_field(st, parser, "ProblemParser", "domain")
    objs = Val(interp.read_field(st, Val(prob.t, ("ref", "Problem")), "Problem", "objects").t, ("ref", "dict_PDDLObject"))
    consts = Val(interp.read_field(st, Val(dom.t, ("ref", "Domain")), "Domain", "constants").t, ("ref", "dict_PDDLObject"))
    ok = interp.read_field(st, objs, "dict_PDDLObject", "keys").t
    om = interp.read_field(st, objs, "dict_PDDLObject", "map").t
    ck = interp.read_field(st, consts, "dict_PDDLObject", "keys").t
    cm = interp.read_field(st, consts, "dict_PDDLObject", "map").t
    obj = z3.If(z3.Contains(ck, z3.Unit(item.t)), z3.Select(cm, item.t), z3.Select(om, item.t))
    known = z3.Or(z3.Contains(ck, z3.Unit(item.t)), z3.Contains(ok, z3.Unit(item.t)))
    ty = interp.read_field(st, Val(obj, ("ref", "PDDLObject")), "PDDLObject", "type")
    return known, ty


def _h_known(interp, st, a):
    return Val(_type_of(interp, st, a[0], a[1])[0], "bool")


def _h_conforms(interp, st, a):
    """conforms(parser, item, required_type): the argument's declared type is a subtype of the required type (ancestor test by name)"""
    from pyvc.sorts import anc
    _, ty = _type_of(interp, st, a[0], a[1])
    N = interp.heap_arr(st, "PDDLType", "name", "str")
    P = interp.heap_arr(st, "PDDLType", "parent", ("ref", "PDDLType"))
    return Val(anc(N, P, ty.t, z3.Select(N, a[2].t)), "bool")


def _h_heap_closed(interp, st, a):
    """objects and constants map their names to allocated PDDLObject objects whose type is an allocated PDDLType"""
    from pyvc.sorts import I, S
    parser = a[0]
    prob = interp.read_field(st, parser, "ProblemParser", "problem")
    dom = interp.read_field(st, parser, "ProblemParser", "domain")
    out = []
    for holder, cls, fld in ((prob, "Problem", "objects"), (dom, "Domain", "constants")):
        d = Val(interp.read_field(st, Val(holder.t, ("ref", cls)), cls, fld).t, ("ref", "dict_PDDLObject"))
        ks = interp.read_field(st, d, "dict_PDDLObject", "keys").t
        mp = interp.read_field(st, d, "dict_PDDLObject", "map").t
        k = z3.Const(f"k!hc{fld}", S)
        o = z3.Select(mp, k)
        ty = z3.Select(interp.heap_arr(st, "PDDLObject", "type", ("ref", "PDDLType")), o)
        out.append(z3.And(d.t >= 1, d.t <= st.top))
        out.append(z3.ForAll([k], z3.Implies(z3.Contains(ks, z3.Unit(k)), z3.And(o >= 1, o <= st.top, ty >= 1, ty <= st.top))))
    return Val(z3.And(*out), "bool")


_C05_HOOKS = dict(_C06_HOOKS, known=_h_known, conforms=_h_conforms, heap_closed=_h_heap_closed)
_SIGT = "lifted_predicate.signature[lifted_predicate.signature.keys()[{i}]]"
CONTRACTS["models.pddl_type:PDDLType.is_sub_type"] = dict(_C06_CONTRACTS["models.pddl_type:PDDLType.is_sub_type"], prop="C06")
CONTRACTS[PP + "_validate_object_types"] = dict(
    prop="C05",
    params={"self": ("ref", "ProblemParser"), "lifted_predicate": ("ref", "Predicate"), "predicate_signature_items": ("ref", "list_str")},
    returns="none", dict_values={"dict_str_ref": "PDDLType"},
    locals={},
    requires=["chain_wf()", "heap_closed(self)",
              "forall_int(lambda i: forall_int(lambda j: implies(i != j, self.problem.objects.keys()[i] != self.problem.objects.keys()[j]), 0, "
              "len(self.problem.objects.keys())), 0, len(self.problem.objects.keys()))", "allocated(self.problem)", "allocated(self.domain)", "allocated(lifted_predicate.signature)",
              "len(predicate_signature_items) == len(lifted_predicate.signature.keys())",
              "forall_int(lambda i: allocated(" + _SIGT.format(i="i") + "), 0, len(lifted_predicate.signature.keys()))"],
    # accepted exactly when every argument is a declared object / constant whose type is a subtype of the required type
    ensures=["forall_int(lambda i: known(self, " + _ITEM.format(i="i") + ") and conforms(self, " + _ITEM.format(i="i") + ", " + _SIGT.format(i="i") + "), 0, len(predicate_signature_items))"],
    raises={"KeyError": "exists_int(lambda i: not known(self, " + _ITEM.format(i="i") + "), 0, len(predicate_signature_items))",
            "AssertionError": "exists_int(lambda i: known(self, " + _ITEM.format(i="i") + ") and not conforms(self, " + _ITEM.format(i="i") + ", " + _SIGT.format(i="i") + "), 0, len(predicate_signature_items))"},
    modifies=[],
    calls={"PDDLType.is_sub_type": "models.pddl_type:PDDLType.is_sub_type"},
    loops={0: dict(invariants=["forall_int(lambda j: anc(_seq[j], " + _SIGT.format(i="j") + ".name), 0, _i)"], modifies=[])},
    spec_hooks=_C05_HOOKS)
