"""C18 — renaming an action's parameters does not change what the action does (bounded; leaf change_signature functions under contract)."""
import itertools
import random
from pyvc.bounded import Harness, Failure
from spec import pddl_sem as PS, semantics as SEM, gen as G, repo_api as RA, sexp as SX, views as V

CONTRACTS = {}
LEVEL = "other"
EXPLANATION = ("bounded stand-in: for generated actions (every generator precondition and effect body) and every injective renaming of the two "
               "parameters from a list (fresh names, swap, chains, overlap with the quantified variable's name space excluded), "
               "Action.change_signature yields the view rename(view before): same number, order and types of parameters, renamed formula and "
               "effects incl. when / forall parts; members of the hash sets remain findable; behaviour on a sample of states/calls is identical.")
TRUSTED = ["spec rename() in this file (substitution of parameter names in a view)", "behavioural clause = view equality + sampled Operator runs"]
ASSUMPTIONS = ["bounded: 2 parameters; 7 renamings; bodies from spec/gen.py; renaming dicts also listed in another order than the signature and with an unused entry"]

RENAMINGS = [{"?x": "?n1", "?y": "?n2"}, {"?x": "?y", "?y": "?x"}, {"?x": "?y", "?y": "?w"}, {"?x": "?w", "?y": "?x"},
             {"?x": "?x", "?y": "?y"}, {"?x": "?param_0", "?y": "?param_1"}, {"?x": "?x", "?y": "?x2"},
             {"?y": "?m2", "?x": "?m1"}, {"?y": "?x", "?x": "?y"}, {"?zz": "?unused", "?y": "?q2", "?x": "?q1"}]


def rename(v, rho, bound=()):
    """rename free parameter names in a view"""
    if isinstance(v, str):
        return rho.get(v, v) if v not in bound else v
    if isinstance(v, tuple):
        if v and v[0] == "forall":
            return ("forall", v[1], v[2], rename(v[3], rho, bound + (v[1],)))
        if v and v[0] in ("lit",):
            return ("lit", v[1], v[2], tuple(rename(a, rho, bound) for a in v[3]))
        if v and v[0] in ("add", "del"):
            return (v[0], v[1], tuple(rename(a, rho, bound) for a in v[2]))
        if v and v[0] == "fl":
            return ("fl", v[1], tuple(rename(a, rho, bound) for a in v[2]))
        if v and v[0] in ("eq", "neq"):
            return (v[0], rename(v[1], rho, bound), rename(v[2], rho, bound))
        if v and v[0] in ("and", "or"):
            return (v[0], tuple(rename(k, rho, bound) for k in v[1]))
        if v and v[0] == "cmp":
            return ("cmp", v[1], rename(v[2], rho, bound), rename(v[3], rho, bound))
        if v and v[0] == "bin":
            return ("bin", v[1], rename(v[2], rho, bound), rename(v[3], rho, bound))
        if v and v[0] == "upd":
            return ("upd", v[1], rename(v[2], rho, bound), rename(v[3], rho, bound))
        if v and v[0] == "when":
            return ("when", rename(v[1], rho, bound), tuple(rename(e, rho, bound) for e in v[2]))
        if v and v[0] == "num":
            return v
        return tuple(rename(k, rho, bound) for k in v)
    return v


def _members_findable(action):
    """every member of every hash set of the schema is found by `in` (hash consistent with current content)"""
    bad = []

    def walk(pre):
        for op in list(pre.operands):
            try:
                found = op in pre.operands
            except Exception as ex:      # hashing a nested condition prints it (through sympy)
                found = False
            if not found:
                bad.append(type(op).__name__)
            if hasattr(op, "operands"):
                walk(op)
    walk(action.preconditions.root)
    for e in list(action.discrete_effects):
        if e not in action.discrete_effects:
            bad.append(str(e))
    for ce in action.conditional_effects:
        walk(ce.antecedents.root)
        for e in list(ce.discrete_effects):
            if e not in ce.discrete_effects:
                bad.append(str(e))
    return bad


class Renaming(Harness):
    name = "c18-rename"
    prop = "C18"
    shards = 8
    functions = ("Action.change_signature", "Precondition.change_signature", "CompoundPrecondition.change_signature", "Predicate.change_signature",
                 "PDDLFunction.change_signature", "NumericalExpressionTree.change_signature")
    bound = {"quick": "formulas(1) as precondition with a fixed effect, effect_bodies(1) as effect with a fixed precondition, x 10 renamings (fresh, swap, two chains, identity, ?param_i, partial; dict listed in reverse order; extra unused entry)", "thorough": "formulas(2)/effect_bodies(2)"}
    rule = "(body, renaming); non-trivial = renaming is not the identity; distinct by input"

    def inputs(self, tier, seed):
        lvl = 1 if tier == "quick" else 2
        for f in G.formulas(lvl):
            for ri in range(len(RENAMINGS)):
                yield {"pre": f, "eff": "(and (p ?x) (not (r ?x ?y)) (increase (f ?y) 1))", "ren": ri}
        for e in G.effect_bodies(lvl):
            for ri in range(len(RENAMINGS)):
                yield {"pre": "(and (p ?x) (not (= ?x ?y)))", "eff": e, "ren": ri}

    def nontrivial_key(self, inp):
        return str(inp) if inp["ren"] != 4 else None

    def check(self, inp):
        from pddl_plus_parser.models import Operator, PDDLObject
        self.cases += 1
        rho = RENAMINGS[inp["ren"]]
        text = G.domain_text([("act", "?x - a ?y - b", inp["pre"], inp["eff"])])
        d = RA.outcome(RA.parse_domain_text, text)
        if d[0] != "ok":
            return []
        dom = d[1]
        act = dom.actions["act"]
        before = V.v_action(act)
        r = RA.outcome(act.change_signature, dict(rho))
        if r[0] != "ok":
            return [Failure(clause="change_signature accepts an injective renaming of the parameters", expected="renamed action", observed=r)]
        after = V.v_action(act)
        out = []
        want_params = [(rho[p], t) for p, t in before["params"]]
        if after["params"] != want_params:
            out.append(Failure(clause="same number, order and types of parameters, new names", expected=want_params, observed=after["params"]))
        if PS.norm(after["pre"]) != PS.norm(rename(before["pre"], rho)):
            out.append(Failure(clause="precondition == renamed precondition (incl. (in)equalities, nested and quantified parts)",
                               expected=str(PS.norm(rename(before["pre"], rho))), observed=str(PS.norm(after["pre"]))))
        if PS.norm_effects(after["eff"]) != PS.norm_effects(rename(before["eff"], rho)):
            out.append(Failure(clause="effects == renamed effects (incl. when and forall parts)",
                               expected=str(PS.norm_effects(rename(before["eff"], rho))), observed=str(PS.norm_effects(after["eff"]))))
        bad = _members_findable(act)
        if bad:
            out.append(Failure(clause="members of the schema's hash sets remain findable after renaming", expected="all found", observed=bad[:3]))
        if out:
            return out[:3]
        # behaviour: the renamed schema grounds and behaves like a freshly parsed original
        dom0 = RA.parse_domain_text(text)
        pobjs = {n: PDDLObject(n, dom.types[t]) for n, t in G.OBJECTS.items()}
        _, all_fls = G.ground_atoms(G.OBJECTS)
        spec_eff = PS.sem_eff(SX.read_text(inp["eff"]), G.PREDS, G.FUNCS)
        for facts in ([], [("p", ("o1",)), ("g", ())], [("p", ("o2",)), ("q", ("o2",)), ("r", ("o2", "o2"))]):
            for args in (["o2", "o2"], ["o1", "o2"]):
                fl = {k: 1.0 for k in all_fls}
                groups = SEM.firing_groups(spec_eff, {"?x": args[0], "?y": args[1]}, (frozenset(facts), fl), dict(G.OBJECTS), G.TYPES_DECL)
                if not SEM.consistent(groups):
                    continue          # the same fluent assigned twice / add-delete clash: outcome is order dependent by definition
                a = RA.outcome(Operator(act, dom, args, pobjs).apply, RA.make_state(dom, facts, fl), True)
                b = RA.outcome(Operator(dom0.actions["act"], dom0, args, pobjs).apply, RA.make_state(dom0, facts, fl), True)
                av = V.v_state(a[1]) if a[0] == "ok" else a
                bv = V.v_state(b[1]) if b[0] == "ok" else b
                if av != bv:
                    out.append(Failure(clause="the renamed action produces the same successors as the original", expected=str(bv), observed=str(av)))
                    return out
        return out


HARNESSES = [Renaming()]

# ---- deductive contracts: the two leaf renamings (all signatures, all injective maps incl. overlapping ones) ---------------
_RHO = "old_to_new_param_names.get({k}, {k})"
_OLDK = "old(self.signature.keys())"


def _cs_contract(cls):
    return dict(
        prop="C18", params={"self": ("ref", cls), "old_to_new_param_names": ("ref", "dict_str_str")}, returns="none", allocates=False,
        dict_values={"dict_str_ref": "PDDLType"},
        requires=[
            "self.signature != old_to_new_param_names", "allocated(self.signature)",
            # the map is injective on the parameters of this signature (names it does not mention stay as they are)
            "forall_int(lambda i: forall_int(lambda j: implies(i != j, "
            + _RHO.format(k="self.signature.keys()[i]") + " != " + _RHO.format(k="self.signature.keys()[j]") + "), 0, len(self.signature.keys())), 0, len(self.signature.keys()))"],
        ensures=[
            # same number of parameters, same order, new names
            f"len(self.signature.keys()) == len({_OLDK})",
            "forall_int(lambda i: self.signature.keys()[i] == " + _RHO.format(k=f"{_OLDK}[i]") + f", 0, len({_OLDK}))",
            # types stay attached to their positions
            f"forall_int(lambda i: self.signature[self.signature.keys()[i]] == old(self.signature[self.signature.keys()[i]]), 0, len({_OLDK}))",
            # the signature object itself is kept (renaming is in place)
            "self.signature == old(self.signature)"],
        raises={}, modifies=["dict_str_ref.keys[self.signature]", "dict_str_ref.map[self.signature]"])


CONTRACTS["models.pddl_predicate:Predicate.change_signature"] = _cs_contract("Predicate")
CONTRACTS["models.pddl_function:PDDLFunction.change_signature"] = _cs_contract("PDDLFunction")
