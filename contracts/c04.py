"""C04 — a plan is turned into the trajectory the transition function dictates (bounded: all plans of length <= 3 over the
scenario domain, valid and invalid steps at every position, with and without the allow-inapplicable switch)."""
import itertools
import random
from pyvc.bounded import Harness, Failure
from spec import pddl_sem as PS, semantics as SEM, gen as G, repo_api as RA, sexp as SX, views as V

CONTRACTS = {}
LEVEL = "other"
EXPLANATION = ("bounded stand-in: TrajectoryExporter.parse_plan over every plan of length <= 3 (11 ground calls) of the scenario domain: one "
               "triplet per plan line in order, first pre-state = the problem's initial state, chained pre/post states, every post-state = "
               "spec successor (or the unchanged state for a refused step), operator text = the plan line; exported text re-read independently.")
TRUSTED = ["spec/semantics.py:succ/holds", "spec/gen.py scenario (4 actions incl. when / forall-when / numeric effects)"]
ASSUMPTIONS = ["bounded: plan length <= 3 (quick: 400 sampled of 1,464; thorough: all), 2 objects"]


def scenario():
    dom = RA.parse_domain_text(G.scenario_domain_text())
    prob = RA.parse_problem_text(G.scenario_problem_text(), dom)
    dspec = PS.sem_domain(SX.read_text(G.scenario_domain_text()))
    pspec = PS.sem_problem(SX.read_text(G.scenario_problem_text()), dspec)
    return dom, prob, dspec, pspec


def spec_run(dspec, pspec, plan, allow):
    """list of (pre, call, post) spec states"""
    objects = dict(pspec["objects"])
    st = (frozenset(pspec["facts"]), dict(pspec["fluents"]))
    out = []
    for name, args in plan:
        act = dspec["actions"][name]
        nxt = SEM.succ(act, args, st, objects, dspec["types"], check_pre=not allow)
        if nxt is None:
            nxt = st
        out.append((st, (name, args), nxt))
        st = nxt
    return out


class PlanToTrajectory(Harness):
    name = "c04-plans"
    prop = "C04"
    shards = 8
    functions = ("TrajectoryExporter.parse_plan", "TrajectoryExporter.create_single_triplet", "TrajectoryExporter.export", "parse_action_call", "Operator.apply")
    bound = {"quick": "400 seeded-sample plans of length 0..3 over 11 ground calls x allow_invalid in {False, True}; plan lines in lower and upper case", "thorough": "all 1,464 plans x 2"}
    rule = "plan x switch; non-trivial = plan with >= 2 steps; distinct by (plan, switch)"

    def inputs(self, tier, seed):
        rnd = random.Random(seed)
        for plan in G.plans(3, rnd, cap=400 if tier == "quick" else None):
            for allow in (False, True):
                yield {"plan": [[n, list(a)] for n, a in plan], "allow": allow}

    def nontrivial_key(self, inp):
        return (str(inp["plan"]), inp["allow"]) if len(inp["plan"]) >= 2 else None

    def check(self, inp):
        from pddl_plus_parser.exporters.numeric_trajectory_exporter import TrajectoryExporter
        self.cases += 1
        dom, prob, dspec, pspec = scenario()
        plan = [(n, tuple(a)) for n, a in inp["plan"]]
        lines = [G.call_text(c, upper=(i % 2 == 1)) + "\n" for i, c in enumerate(plan)]
        exp = spec_run(dspec, pspec, plan, inp["allow"])
        ex = TrajectoryExporter(dom, allow_invalid_actions=inp["allow"])
        r = RA.outcome(ex.parse_plan, prob, None, lines)
        if r[0] != "ok":
            return [Failure(clause="parse_plan returns the triplets of a type-correct plan", expected="triplets", observed=r)]
        tr = r[1]
        out = []
        if len(tr) != len(plan):
            return [Failure(clause="one (state, action, state) step per plan line", expected=len(plan), observed=len(tr))]
        for k, (t, (pre, call, post)) in enumerate(zip(tr, exp)):
            if SX.lex(str(t.operator)) != SX.lex(G.call_text(call)):
                out.append(Failure(clause="step k's action is plan line k, lower-cased", expected=G.call_text(call), observed=str(t.operator)))
            if not SEM.states_equal(V.v_state(t.previous_state), pre):
                out.append(Failure(clause="pre-state k == post-state k-1 (initial state for k = 0)", expected=str(pre), observed=str(V.v_state(t.previous_state)), input={**inp, "step": k}))
            if k > 0 and t.previous_state is not tr[k - 1].next_state and not (t.previous_state == tr[k - 1].next_state):
                out.append(Failure(clause="pre-state k equals post-state k-1", expected="equal", observed="different", input={**inp, "step": k}))
            if not SEM.states_equal(V.v_state(t.next_state), post):
                out.append(Failure(clause="post-state k == successor of pre-state k under action k (unchanged state when the step is refused)",
                                   expected=str(post), observed=str(V.v_state(t.next_state)), input={**inp, "step": k}))
            if t.next_state.is_init:
                out.append(Failure(clause="only the first state is an initial state", expected=False, observed=True, input={**inp, "step": k}))
            # applied directly (the triplet's own, already grounded operator object): refused with an error iff inapplicable
            env = {p_: a_ for (p_, _), a_ in zip(dspec["actions"][call[0]]["params"], call[1])}
            applicable = SEM.holds(dspec["actions"][call[0]]["pre"], env, pre, dict(pspec["objects"]), dspec["types"])
            direct = RA.outcome(t.operator.apply, t.previous_state)
            if applicable and (direct[0] != "ok" or not SEM.states_equal(V.v_state(direct[1]), SEM.succ(dspec["actions"][call[0]], call[1], pre, dict(pspec["objects"]), dspec["types"]))):
                out.append(Failure(clause="applying the step's operator directly to its pre-state gives the successor", expected="successor", observed=str(direct)[:200], input={**inp, "step": k}))
            if not applicable and direct != ("exc", "ValueError"):
                out.append(Failure(clause="an action whose precondition is false is refused with an error when applied directly", expected="ValueError", observed=str(direct)[:200], input={**inp, "step": k}))
            if out:
                return out[:3]
        if tr:
            if not tr[0].previous_state.is_init:
                out.append(Failure(clause="the first pre-state is marked as the initial state", expected=True, observed=False))
            txt = "".join(TrajectoryExporter.export(tr))
            r2 = RA.outcome(SX.read_text, txt)
            if r2[0] != "ok":
                return [Failure(clause="exported trajectory is one balanced form", expected="s-expression", observed=r2)]
            ast_ = r2[1]
            if len(ast_) != 2 * len(plan) + 1 or ast_[0][0] != ":init" or any(ast_[2 * k + 1][0] != "operator:" or ast_[2 * k + 2][0] != ":state" for k in range(len(plan))):
                out.append(Failure(clause="exported text alternates state / operator / state", expected=2 * len(plan) + 1, observed=[x[0] for x in ast_]))
            else:
                dsp = dspec
                objs = dict(pspec["objects"])
                for k in range(len(plan)):
                    if ast_[2 * k + 1][1] != [plan[k][0]] + list(plan[k][1]):
                        out.append(Failure(clause="exported operator line k == plan line k", expected=plan[k], observed=ast_[2 * k + 1]))
                for k in range(len(plan) + 1):
                    facts, fl = set(), {}
                    for comp in ast_[2 * k][1:]:
                        kind, val = PS.sem_state_component(comp, dsp, objs)
                        if kind == "fact":
                            facts.add(val)
                        else:
                            fl[val[0]] = val[1]
                    want = exp[0][0] if k == 0 else exp[k - 1][2]
                    if not SEM.states_equal((frozenset(facts), fl), want):
                        out.append(Failure(clause="exported state k, read independently, == state k of the spec run", expected=str(want), observed=str((facts, fl)), input={**inp, "state": k}))
                        break
        return out[:3]


HARNESSES = [PlanToTrajectory()]
