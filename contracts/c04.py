"""C04 — a plan is turned into the trajectory the transition function dictates (bounded: all plans of length <= 3 over the
scenario domain, valid and invalid steps at every position, with and without the allow-inapplicable switch)."""
import itertools
import random
from pyvc.bounded import Harness, Failure
from spec import pddl_sem as PS, semantics as SEM, gen as G, repo_api as RA, sexp as SX, views as V

import z3
from pyvc.core import Val
from pyvc.sorts import I, S, B, Q

TE = "exporters.numeric_trajectory_exporter:TrajectoryExporter."
NTE = "exporters.numeric_trajectory_exporter:"
OP = "models.pddl_operator:Operator."
_TT = ("ref", "TrajectoryTriplet")
_ST = ("ref", "State")
_OPR = ("ref", "Operator")
# uninterpreted relations standing for what the bounded checks of C02/C03 establish about one operator:
#   op_applicable(op, s)   : the operator's precondition holds in s
#   op_succ(op, s, s')     : s' is the successor of s under op
_op_applicable = z3.Function("op_applicable", I, I, B)
_op_succ = z3.Function("op_succ", I, I, I, B)
_line_name = z3.Function("line_name", S, S)          # action name of a plan line (parse_action_call, bounded)
_line_args = z3.Function("line_args", S, Q)          # its arguments, in order


def _h_applicable(interp, st, a):
    return Val(_op_applicable(a[0].t, a[1].t), "bool")


def _h_succ(interp, st, a):
    return Val(_op_succ(a[0].t, a[1].t, a[2].t), "bool")


def _h_line_name(interp, st, a):
    return Val(_line_name(a[0].t), "str")


def _h_line_args(interp, st, a):
    return Val(_line_args(a[0].t), ("seq", "str"))


def _h_triplet_rel(interp, st, a):
    """triplet_rel(t, prev, line, objs, exporter): the step t is what the transition function dictates for `line` in `prev`:
    operator = the line's call on this exporter's domain with the problem's objects; post-state = successor when the action is
    applicable or inapplicable actions are allowed; otherwise (refused) a state with prev's facts and fluents, not an initial state."""
    t, prev, line, objs, ex = a
    T = lambda f, r=t: interp.read_field(st, r, r.ty[1], f)
    op = Val(T("operator").t, _OPR)
    O = lambda f: interp.read_field(st, op, "Operator", f)
    dom = interp.read_field(st, ex, "TrajectoryExporter", "domain")
    allow = interp.read_field(st, ex, "TrajectoryExporter", "allow_invalid_actions").t
    acts = interp.read_field(st, Val(dom.t, ("ref", "Domain")), "Domain", "actions")
    amap = interp.read_field(st, Val(acts.t, ("ref", "dict_str_ref")), "dict_str_ref", "map")
    nxt = Val(T("next_state").t, _ST)
    N = lambda f, r=nxt: interp.read_field(st, r, "State", f)
    P = lambda f: interp.read_field(st, prev, "State", f)
    call_objs = interp.read_field(st, Val(O("grounded_call_objects").t, ("ref", "list_str")), "list_str", "items")
    applicable = _op_applicable(op.t, prev.t)
    return Val(z3.And(
        T("previous_state").t == prev.t,
        O("action").t == z3.Select(amap.t, _line_name(line.t)), O("domain").t == dom.t, O("problem_objects").t == objs.t,
        call_objs.t == _line_args(line.t),
        z3.Implies(z3.Or(applicable, allow), _op_succ(op.t, prev.t, nxt.t)),
        z3.Implies(z3.And(z3.Not(applicable), z3.Not(allow)),
                   z3.And(N("state_predicates").t == P("state_predicates").t, N("state_fluents").t == P("state_fluents").t,
                          z3.Not(N("is_init").t)))), "bool")


_HOOKS = {"triplet_rel": _h_triplet_rel, "op_applicable": _h_applicable, "op_succ": _h_succ, "line_name": _h_line_name, "line_args": _h_line_args}
CONTRACTS = {
    NTE + "parse_action_call": dict(
        prop="C04", assumed=True, params={"action_call": "str"}, returns=("ref", "ActionCall"),
        ensures=["fresh(result)", "result.name == line_name(action_call)", "fresh(result.parameters)",
                 "seq(result.parameters) == line_args(action_call)"],
        raises={"IndexError": "True"}, modifies=[], spec_hooks=_HOOKS),
    OP + "apply": dict(
        prop="C04", assumed=True,
        params={"self": _OPR, "previous_state": _ST, "allow_inapplicable_actions": "bool", "skip_validation": "bool"}, returns=_ST,
        # the transition function (checked bounded by C02/C03): a fresh successor, or ValueError exactly for a refused action
        ensures=["fresh(result)", "op_succ(self, previous_state, result)"],
        raises={"ValueError": "not op_applicable(self, previous_state) and not allow_inapplicable_actions and not skip_validation"},
        must_raise=["not op_applicable(self, previous_state) and not allow_inapplicable_actions and not skip_validation"],
        modifies=["Operator.grounded[self]", "Operator.grounded_effects[self]", "Operator.grounded_preconditions[self]"], spec_hooks=_HOOKS),
    TE + "create_single_triplet": dict(
        prop="C04",
        params={"self": ("ref", "TrajectoryExporter"), "previous_state": _ST, "action_call": "str", "problem_objects": ("ref", "opaque")},
        locals={"action_descriptor": ("ref", "ActionCall"), "operator": _OPR, "next_state": _ST},
        returns=_TT, dict_values={"dict_str_ref": "Action"},
        requires=["allocated(self.domain)", "allocated(self.domain.actions)"],
        ensures=["fresh(result)", "result.previous_state == previous_state", "fresh(result.next_state)", "fresh(result.operator)",
                 "triplet_rel(result, previous_state, action_call, problem_objects, self)"],
        # an unknown action name / malformed line is an error, never a silently different step
        raises={"KeyError": "True", "IndexError": "True"},
        modifies=[], calls={"parse_action_call": NTE + "parse_action_call", "Operator.apply": OP + "apply"},
        spec_hooks=_HOOKS),
    TE + "_read_plan": dict(prop="C04", assumed=True, params={"self": ("ref", "TrajectoryExporter"), "plan_file_path": "str"},
                            returns=("ref", "list_str"), ensures=["fresh(result)"], raises={}, modifies=[]),
    TE + "parse_plan": dict(
        prop="C04",
        params={"self": ("ref", "TrajectoryExporter"), "problem": ("ref", "Problem"), "plan_path": "str", "action_sequence": ("ref", "list_str")},
        optional=("action_sequence",),
        locals={"triplets": ("seq", _TT)},
        returns=("seq", _TT),
        requires=["action_sequence is not None", "allocated(self.domain)", "allocated(self.domain.actions)"],
        ensures=[
            # one step per plan line, in plan order
            "len(result) == len(action_sequence)",
            # the first pre-state is the problem's initial state
            "implies(len(result) > 0, result[0].previous_state.is_init and "
            "result[0].previous_state.state_predicates == problem.initial_state_predicates and "
            "result[0].previous_state.state_fluents == problem.initial_state_fluents)",
            # every pre-state is the preceding post-state (same object)
            "forall_int(lambda k: result[k].previous_state == result[k - 1].next_state, 1, len(result))",
            # every step is what the transition function dictates for its own line and pre-state (incl. the refusal rule)
            "forall_int(lambda k: triplet_rel(result[k], result[k].previous_state, seq(action_sequence)[k], problem.objects, self), 0, len(result))",
        ],
        raises={"KeyError": "True", "IndexError": "True"}, modifies=[],
        calls={"self.create_single_triplet": TE + "create_single_triplet", "self._read_plan": TE + "_read_plan"},
        loops={0: dict(invariants=[
            "len(triplets) == _i",
            "implies(_i == 0, previous_state.is_init and previous_state.state_predicates == problem.initial_state_predicates and "
            "previous_state.state_fluents == problem.initial_state_fluents)",
            "implies(_i > 0, previous_state == triplets[_i - 1].next_state)",
            "implies(_i > 0, triplets[0].previous_state.is_init and triplets[0].previous_state.state_predicates == problem.initial_state_predicates and "
            "triplets[0].previous_state.state_fluents == problem.initial_state_fluents)",
            "forall_int(lambda k: triplets[k].previous_state == triplets[k - 1].next_state, 1, _i)",
            "forall_int(lambda k: triplet_rel(triplets[k], triplets[k].previous_state, _seq[k], problem.objects, self), 0, _i)",
        ], modifies=[])},
        spec_hooks=_HOOKS),
}
LEVEL = "other"
EXPLANATION = ("bounded stand-in: TrajectoryExporter.parse_plan over every plan of length <= 3 (11 ground calls) of the scenario domain: one "
               "triplet per plan line in order, first pre-state = the problem's initial state, chained pre/post states, every post-state = "
               "spec successor (or the unchanged state for a refused step), operator text = the plan line; exported text re-read independently.")
TRUSTED = ["spec/semantics.py:succ/holds", "spec/gen.py scenario (4 actions incl. when / forall-when / numeric effects)"]
ASSUMPTIONS = ["bounded: plan length <= 3 (quick: 400 sampled of 1,464; thorough: all), 2 objects"]


def scenario():
    dom = RA.parse_domain_text(G.scenario_domain_text())
    prob = RA.parse_problem_text(G.scenario_problem_text(), dom)
    dspec = PS.sem_domain(SX.read_text(G.scenario_domain_text()))
    pspec = PS.sem_problem(SX.read_text(G.scenario_problem_text()), dspec)
    return dom, prob, dspec, pspec


def spec_run(dspec, pspec, plan, allow):
    """list of (pre, call, post) spec states"""
    objects = dict(pspec["objects"])
    st = (frozenset(pspec["facts"]), dict(pspec["fluents"]))
    out = []
    for name, args in plan:
        act = dspec["actions"][name]
        nxt = SEM.succ(act, args, st, objects, dspec["types"], check_pre=not allow)
        if nxt is None:
            nxt = st
        out.append((st, (name, args), nxt))
        st = nxt
    return out


class PlanToTrajectory(Harness):
    name = "c04-plans"
    prop = "C04"
    shards = 8
    functions = ("TrajectoryExporter.parse_plan", "TrajectoryExporter.create_single_triplet", "TrajectoryExporter.export", "parse_action_call", "Operator.apply")
    bound = {"quick": "400 seeded-sample plans of length 0..3 over 11 ground calls x allow_invalid in {False, True}; plan lines in lower and upper case", "thorough": "all 1,464 plans x 2"}
    rule = "plan x switch; non-trivial = plan with >= 2 steps; distinct by (plan, switch)"

    def inputs(self, tier, seed):
        rnd = random.Random(seed)
        for plan in G.plans(3, rnd, cap=400 if tier == "quick" else None):
            for allow in (False, True):
                yield {"plan": [[n, list(a)] for n, a in plan], "allow": allow}

    def escalated_inputs(self, seed):
        rnd = random.Random(seed + 4)
        calls = G.scenario_calls()
        for _ in range(1500):
            n = rnd.randint(4, 12)
            yield {"plan": [[c[0], list(c[1])] for c in (rnd.choice(calls) for _ in range(n))], "allow": rnd.random() < 0.5}

    def nontrivial_key(self, inp):
        return (str(inp["plan"]), inp["allow"]) if len(inp["plan"]) >= 2 else None

    def check(self, inp):
        from pddl_plus_parser.exporters.numeric_trajectory_exporter import TrajectoryExporter
        self.cases += 1
        dom, prob, dspec, pspec = scenario()
        plan = [(n, tuple(a)) for n, a in inp["plan"]]
        lines = [G.call_text(c, upper=(i % 2 == 1)) + "\n" for i, c in enumerate(plan)]
        exp = spec_run(dspec, pspec, plan, inp["allow"])
        ex = TrajectoryExporter(dom, allow_invalid_actions=inp["allow"])
        r = RA.outcome(ex.parse_plan, prob, None, lines)
        if r[0] != "ok":
            return [Failure(clause="parse_plan returns the triplets of a type-correct plan", expected="triplets", observed=r)]
        tr = r[1]
        out = []
        if len(tr) != len(plan):
            return [Failure(clause="one (state, action, state) step per plan line", expected=len(plan), observed=len(tr))]
        for k, (t, (pre, call, post)) in enumerate(zip(tr, exp)):
            if SX.lex(str(t.operator)) != SX.lex(G.call_text(call)):
                out.append(Failure(clause="step k's action is plan line k, lower-cased", expected=G.call_text(call), observed=str(t.operator)))
            if not SEM.states_equal(V.v_state(t.previous_state), pre):
                out.append(Failure(clause="pre-state k == post-state k-1 (initial state for k = 0)", expected=str(pre), observed=str(V.v_state(t.previous_state)), input={**inp, "step": k}))
            if k > 0 and t.previous_state is not tr[k - 1].next_state and not (t.previous_state == tr[k - 1].next_state):
                out.append(Failure(clause="pre-state k equals post-state k-1", expected="equal", observed="different", input={**inp, "step": k}))
            if not SEM.states_equal(V.v_state(t.next_state), post):
                out.append(Failure(clause="post-state k == successor of pre-state k under action k (unchanged state when the step is refused)",
                                   expected=str(post), observed=str(V.v_state(t.next_state)), input={**inp, "step": k}))
            if t.next_state.is_init:
                out.append(Failure(clause="only the first state is an initial state", expected=False, observed=True, input={**inp, "step": k}))
            # applied directly (the triplet's own, already grounded operator object): refused with an error iff inapplicable
            env = {p_: a_ for (p_, _), a_ in zip(dspec["actions"][call[0]]["params"], call[1])}
            applicable = SEM.holds(dspec["actions"][call[0]]["pre"], env, pre, dict(pspec["objects"]), dspec["types"])
            direct = RA.outcome(t.operator.apply, t.previous_state)
            if applicable and (direct[0] != "ok" or not SEM.states_equal(V.v_state(direct[1]), SEM.succ(dspec["actions"][call[0]], call[1], pre, dict(pspec["objects"]), dspec["types"]))):
                out.append(Failure(clause="applying the step's operator directly to its pre-state gives the successor", expected="successor", observed=str(direct)[:200], input={**inp, "step": k}))
            if not applicable and direct != ("exc", "ValueError"):
                out.append(Failure(clause="an action whose precondition is false is refused with an error when applied directly", expected="ValueError", observed=str(direct)[:200], input={**inp, "step": k}))
            if out:
                return out[:3]
        if tr:
            if not tr[0].previous_state.is_init:
                out.append(Failure(clause="the first pre-state is marked as the initial state", expected=True, observed=False))
            txt = "".join(TrajectoryExporter.export(tr))
            r2 = RA.outcome(SX.read_text, txt)
            if r2[0] != "ok":
                return [Failure(clause="exported trajectory is one balanced form", expected="s-expression", observed=r2)]
            ast_ = r2[1]
            if len(ast_) != 2 * len(plan) + 1 or ast_[0][0] != ":init" or any(ast_[2 * k + 1][0] != "operator:" or ast_[2 * k + 2][0] != ":state" for k in range(len(plan))):
                out.append(Failure(clause="exported text alternates state / operator / state", expected=2 * len(plan) + 1, observed=[x[0] for x in ast_]))
            else:
                dsp = dspec
                objs = dict(pspec["objects"])
                for k in range(len(plan)):
                    if ast_[2 * k + 1][1] != [plan[k][0]] + list(plan[k][1]):
                        out.append(Failure(clause="exported operator line k == plan line k", expected=plan[k], observed=ast_[2 * k + 1]))
                for k in range(len(plan) + 1):
                    facts, fl = set(), {}
                    for comp in ast_[2 * k][1:]:
                        kind, val = PS.sem_state_component(comp, dsp, objs)
                        if kind == "fact":
                            facts.add(val)
                        else:
                            fl[val[0]] = val[1]
                    want = exp[0][0] if k == 0 else exp[k - 1][2]
                    if not SEM.states_equal((frozenset(facts), fl), want):
                        out.append(Failure(clause="exported state k, read independently, == state k of the spec run", expected=str(want), observed=str((facts, fl)), input={**inp, "state": k}))
                        break
        return out[:3]


HARNESSES = [PlanToTrajectory()]
