#!/bin/bash
# Re-validate the behaviour-preserving refactorings of seeded/harmless against the current machinery: each patch is applied to a scratch
# copy of /repo, the properties whose contracts or harnesses name a function of a changed file are checked (PYVC_REPO), and every check
# must exit 0 without a VIOLATION line (DEMOTED lines are allowed and reported).  usage: tools/recheck_harmless.sh [patch files...]
cd "$(dirname "$0")/.."
S=$(mktemp -d /tmp/harmchk.XXXX)
rsync -a --exclude .git /repo/ $S/
FILES=${@:-$(ls seeded/harmless/*.diff)}
bad=0
for f in $FILES; do
  (cd $S && patch -s -p1 < /verif/$f) || { echo "$(basename $f) PATCH-FAILS (skipped)"; (cd $S && git checkout -q . 2>/dev/null; rsync -a --delete --exclude .git /repo/ $S/); continue; }
  mods=$(grep -E '^\+\+\+ b/' $f | sed 's|+++ b/pddl_plus_parser/||; s|\.py$||; s|/|.|g')
  props=""
  for m in $mods; do
    base=${m##*.}
    for c in contracts/c*.py; do
      if grep -q "$m:\|$base" $c; then p=$(basename $c .py); props="$props C${p#c}"; fi
    done
  done
  props=$(echo $props | tr ' ' '\n' | sort -u | tr '\n' ' ')
  line="$(basename $f): $props ->"
  for q in $props; do
    out=$(PYVC_REPO=$S ./vcheck $q 2>&1); rc=$?
    dem=$(echo "$out" | grep -c '^DEMOTED')
    line="$line $q:rc=$rc/dem=$dem"
    if [ $rc -ne 0 ]; then bad=$((bad+1)); echo "$out" | grep -E '^VIOLATION|^CHECKER' | head -3; fi
  done
  echo "$line"
  (cd $S && patch -s -R -p1 < /verif/$f)
done
rm -rf $S
echo "alarms=$bad"
exit $bad
