#!/bin/bash
# Re-validate every kept seeded change against the current machinery: each patch is applied to a scratch copy of /repo
# (never to /repo itself), the property's quick check must exit 1 with a VIOLATION line, and the copy is removed afterwards.
# usage: tools/recheck_seeded.sh [ids...]
cd "$(dirname "$0")/.."
S=$(mktemp -d /tmp/seedchk.XXXX)
rsync -a --exclude .git /repo/ $S/
IDS=${@:-$(ls seeded | grep -E '^C[0-9]+-[0-9]+$')}
miss=0
for id in $IDS; do
  p=${id%%-*}
  (cd $S && patch -s -p1 < /verif/seeded/$id/patch.diff) || { echo "$id PATCH-FAILS"; continue; }
  out=$(PYVC_REPO=$S ./vcheck $p 2>&1); rc=$?
  v=$(echo "$out" | grep -c '^VIOLATION')
  echo "$id rc=$rc violations=$v $(echo "$out" | grep -E '^VIOLATION' | head -1 | cut -c1-160)"
  [ $rc -eq 1 ] || miss=$((miss+1))
  (cd $S && patch -s -R -p1 < /verif/seeded/$id/patch.diff)
done
rm -rf $S
echo "missed=$miss"
exit $miss
