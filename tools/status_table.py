"""Markdown table of what is discharged deductively, generated from evidence/*.json (run the checks first)."""
import json, sys
from pathlib import Path
rows = []
for p in sorted(Path("/verif/evidence").glob("C*.json")):
    e = json.loads(p.read_text())
    c = e["coverage"]
    fs = [f for f in c["functions_under_contract"]]
    names = ", ".join("`" + f["function"].split(":")[1] + "`" + ("" if f["class"] == "P" else " (demoted)") for f in fs) or "—"
    n_ass = sum(1 for a in e["assumptions"] if a.startswith("assumed contract"))
    rows.append(f"| {e['property_id']} | {e['level']} | {names} | {c['discharged']}/{c['obligations']} | {n_ass} | {c['evaluations']} |")
print("| property | level | functions under discharged contract | obligations (instances) | assumed callee contracts | bounded evaluations (quick) |")
print("|---|---|---|---|---|---|")
print("\n".join(rows))
