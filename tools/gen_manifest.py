#!/usr/bin/env python3
"""Regenerates /verif/MANIFEST.json from the per-property modules under contracts/ (dev tool)."""
import importlib
import json
import sys
from pathlib import Path
ROOT = Path(__file__).resolve().parent.parent
sys.path.insert(0, str(ROOT))
props = [json.loads(l)["id"] for l in open(ROOT / "properties.jsonl")]
checks, na, served = [], [], []
for p in props:
    try:
        m = importlib.import_module(f"contracts.{p.lower()}")
    except ModuleNotFoundError:
        na.append({"property_id": p, "reason": "check not built yet in this session (no contract module); see DESIGN.md §8 build order"})
        continue
    if getattr(m, "NOT_APPLICABLE", None):
        na.append({"property_id": p, "reason": m.NOT_APPLICABLE})
        continue
    served.append(p)
    pf = [k.split(":")[1] for k, c in m.CONTRACTS.items() if not k.startswith("__") and not c.get("assumed") and c.get("prop", p) == p]
    npf = len(pf)
    level = m.LEVEL
    tech = (f"contract-based deductive verification: pyvc generates VCs from the current source of {', '.join(pf)} against sidecar contracts and discharges "
            "them with z3 5.1.0, each `unsat` confirmed by cvc5 1.0.3 or z3 4.8.12 on the same SMT-LIB text or on z3's unsat core; functions outside the generator's reach: " if npf else
            "no function of this property is within reach of the VC generator (see DESIGN.md §0a); deciding method: ") + \
           "bounded native execution of the contracts against the independent executable specification over an enumerated scope (labelled stand-in, never counted as proved)"
    checks.append({
        "property_id": p, "quick_cmd": f"./vcheck {p} --tier quick", "thorough_cmd": f"./vcheck {p} --tier thorough",
        "evidence_file": f"evidence/{p}.json", "replay_cmd_template": "./vcheck --replay {path}", "engine": "pyvc",
        "level_claimed": {"category": level, "text": (f"deductive (all inputs): {', '.join(pf)} — see DESIGN.md §0a for what each contract states. " if npf else "") + m.EXPLANATION,
                          "design_ref": f"DESIGN.md §0a and §4 {p}"},
        "level_note": "trusted: " + "; ".join(m.TRUSTED) + " | assumptions: " + "; ".join(m.ASSUMPTIONS),
        "technique": tech})
man = {
    "version": 1, "setup_cmd": "./setup.sh",
    "hooks": {"guard": "PDDL_PLUS_PARSER_VERIF", "enable": "no hooks: /repo sources are read (ast) and called, never instrumented",
              "baseline_off_cmd": "cd /repo && /venv/bin/python -m pytest -ra -q -p no:cacheprovider --timeout=900 --continue-on-collection-errors",
              "source_commits": [], "add_only": True},
    "engines": [{"name": "pyvc", "path": "pyvc/", "serves_properties": served,
                 "kind_free_text": "self-written VC generator (ast of /repo functions -> modular symbolic execution against sidecar contracts -> z3, cvc5 fallback) + bounded native contract execution (labelled stand-in, never counted as proved)"}],
    "checks": checks, "not_applicable": na,
    "notes": "Properties are fixed in properties.jsonl. Repairs of genuine defects are 'fix:' commits in /repo, listed in known_findings.json as fixed entries; unrepaired defects are known findings."}
(ROOT / "MANIFEST.json").write_text(json.dumps(man, indent=1))
import jsonschema
jsonschema.validate(man, json.load(open("/root/.vp/MANIFEST.schema.json")))
print("MANIFEST ok:", len(checks), "checks,", len(na), "not applicable")
