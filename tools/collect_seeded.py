#!/usr/bin/env python3
"""Dev tool: copy the verified seeded changes into /verif/seeded/<id>/ and (re)run the verification steps, recording them in meta.json."""
import json, os, re, shutil, subprocess, sys
from pathlib import Path
ROOT = Path("/verif")
initially_missed = {"C12-2", "C18-2", "C14-1", "C01-1", "C01-2", "C02-2", "C03-1", "C05-2", "C07-1", "C07-2", "C04-2", "C09-1", "C10-1", "C10-2",
                    "C13-2", "C15-1", "C15-2", "C17-2", "C19-2", "C20-1", "C20-2"}
rows = []
for i in range(1, 21):
    P = f"C{i:02d}"
    for k in (1, 2):
        out = Path(f"/tmp/wt/out/{P}")
        if not (out / f"patch{k}.diff").exists():
            continue
        sid = f"{P}-{k}"
        if len(sys.argv) > 1 and sid not in sys.argv[1:]:
            continue
        d = ROOT / "seeded" / sid
        d.mkdir(parents=True, exist_ok=True)
        shutil.copy(out / f"patch{k}.diff", d / "patch.diff")
        shutil.copy(out / f"demo{k}.py", d / "demo.py")
        notes = (out / f"notes{k}.md").read_text() if (out / f"notes{k}.md").exists() else ""
        wt = f"/tmp/wt/{P}"
        run = lambda cmd: subprocess.run(cmd, shell=True, capture_output=True, text=True)
        run(f"git -C {wt} checkout -q -- . ; git -C {wt} clean -fdq")
        clean_demo = run(f"cd {wt} && /venv/bin/python {out}/demo{k}.py").returncode
        ap = run(f"git -C {wt} apply {out}/patch{k}.diff").returncode
        tests = run(f"cd {wt} && /venv/bin/python -m pytest -q -p no:cacheprovider -o log_cli=false 2>&1 | tail -1").stdout.strip()
        demo = run(f"cd {wt} && /venv/bin/python {out}/demo{k}.py").returncode
        chk = run(f"cd /verif && PYVC_REPO={wt} ./vcheck {P} 2>&1")
        summary = [l for l in chk.stdout.splitlines() if l.startswith(f"{P}:")]
        clauses = sorted({l.strip()[8:] for l in chk.stdout.splitlines() if l.startswith("  clause:")})[:4]
        obl = [l for l in chk.stdout.splitlines() if l.startswith(("OBLIGATION-FAILED", "UNDECIDED", "DEMOTED"))][:3]
        run(f"git -C {wt} checkout -q -- . ; git -C {wt} clean -fdq")
        files = re.findall(r"^\+\+\+ b/(\S+)", (out / f"patch{k}.diff").read_text(), re.M)
        meta = {"id": sid, "property": P, "files_changed": files, "needs_to_manifest_and_notes": notes[:1800],
                "ran": {"demo_exit_on_unchanged_tree": clean_demo, "patch_applies": ap == 0, "pinned_tests_with_change": tests,
                        "demo_exit_with_change": demo, "check_cmd": f"PYVC_REPO=<scratch worktree with the change> ./vcheck {P} --tier quick",
                        "check_exit": chk.returncode, "check_summary": summary, "failed_clauses": clauses, "deductive_lines": obl},
                "caught_by": P if chk.returncode == 1 else None,
                "caught_only_after_strengthening": sid in initially_missed}
        (d / "meta.json").write_text(json.dumps(meta, indent=1))
        rows.append((sid, chk.returncode, tests, clean_demo, demo, sid in initially_missed, clauses[:1], obl[:1]))
        print(rows[-1], flush=True)
if len(sys.argv) == 1:
    json.dump(rows, open(ROOT / "seeded" / "SUMMARY.json", "w"), indent=1)
