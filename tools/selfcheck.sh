#!/bin/bash
# Development aid: on the unchanged tree every check must exit 0 with no DEMOTED / UNDECIDED / VIOLATION / CHECKER-BROKEN line.
cd /verif; bad=0
for i in 01 02 03 04 05 06 07 08 09 10 11 12 13 14 15 16 17 18 19 20; do
  out=$(./vcheck C$i --tier ${1:-quick} 2>&1); rc=$?
  echo "$out" | grep -E "^C$i:" | cut -c1-140
  if [ $rc -ne 0 ] || echo "$out" | grep -qE "^(DEMOTED|UNDECIDED|VIOLATION|CHECKER-BROKEN)"; then echo "  !!! C$i rc=$rc"; echo "$out" | grep -E "^(DEMOTED|UNDECIDED|VIOLATION|CHECKER-BROKEN)" | cut -c1-200 | head -3; bad=1; fi
done
exit $bad
