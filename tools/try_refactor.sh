#!/bin/bash
# Development aid: a behaviour-preserving refactoring must not raise an alarm.  usage: tools/try_refactor.sh <Rk> <j> [props...]
R=$1; J=$2; shift 2
WT=/tmp/wt/$R; OUT=/tmp/wt/rf/$R
PROPS=${@:-C01 C02 C03 C04 C05 C06 C07 C08 C09 C10 C11 C12 C13 C14 C15 C16 C17 C18 C19 C20}
git -C $WT checkout -q -- . ; git -C $WT clean -fdq
git -C $WT apply $OUT/patch$J.diff || { echo "PATCH DOES NOT APPLY"; exit 2; }
echo -n "pinned: "; (cd $WT && /venv/bin/python -m pytest -q -p no:cacheprovider -o log_cli=false 2>&1 | tail -1)
for q in $PROPS; do
  out=$(cd /verif && PYVC_REPO=$WT ./vcheck $q 2>&1); rc=$?
  echo "$out" | grep -E "^VIOLATION|^DEMOTED|^CHECKER|^UNDECIDED" | cut -c1-200 | head -4
  [ $rc -ne 0 ] && echo "  >>> $q exit=$rc"
done
git -C $WT checkout -q -- . ; git -C $WT clean -fdq
