#!/bin/bash
# Development aid: evaluate a seeded change.  usage: tools/try_seeded.sh <Cnn> <k> [props-to-run...]
# Applies /tmp/wt/out/<Cnn>/patch<k>.diff to the scratch worktree /tmp/wt/<Cnn>, runs the pinned tests, the demo with and
# without the change, and the given checks (default: all) against the changed scratch tree (PYVC_REPO), then reverts.
P=$1; K=$2; shift 2
WT=/tmp/wt/$P; OUT=/tmp/wt/out/$P
PROPS=${@:-C01 C02 C03 C04 C05 C06 C07 C08 C09 C10 C11 C12 C13 C14 C15 C16 C17 C18 C19 C20}
git -C $WT checkout -q -- . ; git -C $WT clean -fdq
echo "== demo on clean tree"; (cd $WT && /venv/bin/python $OUT/demo$K.py >/dev/null 2>&1; echo "exit=$?")
git -C $WT apply $OUT/patch$K.diff || { echo "PATCH DOES NOT APPLY"; exit 2; }
echo "== pinned tests with change"; (cd $WT && /venv/bin/python -m pytest -q -p no:cacheprovider -o log_cli=false 2>&1 | tail -1)
echo "== demo with change"; (cd $WT && /venv/bin/python $OUT/demo$K.py >/dev/null 2>&1; echo "exit=$?")
echo "== checks against the changed tree"
for q in $PROPS; do
  (cd /verif && PYVC_REPO=$WT ./vcheck $q 2>&1 | grep -E "^$q:|^UNDECIDED|^DEMOTED|^CHECKER|^OBLIGATION" | cut -c1-220 | tail -4)
done
git -C $WT checkout -q -- . ; git -C $WT clean -fdq
