"""debug helper: tools/dbg.py <Cnn> <function key> [obligation substring] [--dump]   (run with .venv/bin/python from /verif)"""
import sys, time, importlib
sys.path.insert(0, "/verif")
import z3
from pyvc import source, engine, solve

prop, key = sys.argv[1], sys.argv[2]
sel = sys.argv[3] if len(sys.argv) > 3 and not sys.argv[3].startswith("--") else None
mod = importlib.import_module(f"contracts.{prop.lower()}")
reg = dict(mod.CONTRACTS)
fs = source.find_function(key)
it = engine.Interp(fs, reg[key], reg)
obs = it.run()
print(len(obs), "obligations")
for o in obs:
    if sel and sel not in o.oid:
        continue
    t0 = time.time()
    solve.solve(o)
    print(o.oid, o.verdict, o.backend, round(time.time() - t0, 2), "line", o.line, "|", o.info.get("label", "")[:110])
    if "--dump" in sys.argv:
        for c in o.conds:
            print("   H:", str(c).replace("\n", " ")[:600])
        print("   G:", str(o.goal).replace("\n", " ")[:1500])
    if o.verdict == "refuted" and "--model" in sys.argv:
        print(o.model)
