#!/bin/sh
# Development aid (not a registered check): runs the repository's wider suite with each test directory as cwd
# (fixtures are cwd-relative). Usage: tools/wide_tests.sh [repo-dir]
R=${1:-/repo}
for d in exporters_tests lisp_parsers_tests models_tests multi_agent_tests; do
  echo "== $d"
  (cd $R/tests/$d && PYTHONPATH=$R /venv/bin/python -m pytest . -q -p no:cacheprovider -o log_cli=false --rootdir=$R 2>&1 | grep -E "^(FAILED|ERROR)|passed|failed")
done
