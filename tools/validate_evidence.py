"""Dev tool: every committed evidence file must be the record of a clean run: level as claimed in MANIFEST, every obligation discharged,
no demotion, no violation, schema-valid."""
import json, sys
from pathlib import Path
import jsonschema
root = Path("/verif")
man = json.loads((root / "MANIFEST.json").read_text())
schema = json.loads(Path("/root/.vp/EVIDENCE.schema.json").read_text())
bad = 0
for c in man["checks"]:
    p = root / c["evidence_file"]
    e = json.loads(p.read_text())
    probs = []
    try:
        jsonschema.validate(e, schema)
    except Exception as ex:
        probs.append("schema: " + str(ex)[:100])
    cov = e["coverage"]
    if e["level"] != c["level_claimed"]["category"]:
        probs.append(f"level {e['level']} != claimed {c['level_claimed']['category']}")
    if cov["discharged"] != cov["obligations"]:
        probs.append(f"discharged {cov['discharged']} != obligations {cov['obligations']}")
    if cov.get("demoted"):
        probs.append(f"demoted: {[d['function'] for d in cov['demoted']]}")
    if e["violations"]:
        probs.append(f"violations {e['violations']}")
    if e.get("tier") != "quick":
        probs.append(f"tier {e.get('tier')}")
    print(c["property_id"], "OK" if not probs else "; ".join(probs))
    bad += bool(probs)
sys.exit(1 if bad else 0)
