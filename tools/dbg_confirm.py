"""tools/dbg_confirm.py <Cnn> <function key> <obligation substr> — per instance: every z3 query answered `unsat` and what the second solvers say."""
import sys, time, importlib
sys.path.insert(0, "/verif")
import z3
from pyvc import source, engine, solve
prop, key, sub = sys.argv[1:4]
mod = importlib.import_module("contracts." + prop.lower())
reg = dict(mod.CONTRACTS) | getattr(mod, "CONTRACTS_NOT_DISCHARGED", {})
it = engine.Interp(source.find_function(key), reg[key], reg)
obs = [o for o in it.run() if sub in o.oid]
orig = solve._confirm
def logged(text, budget=None):
    res = orig(text, budget)
    print("     confirm:", res, "size", len(text))
    if res[1] != "unsat" and "--dump" in sys.argv:
        import hashlib; p = f"/tmp/unconf_{hashlib.sha1(text.encode()).hexdigest()[:10]}.smt2"; open(p, "w").write(text); print("     dumped", p)
    return res
solve._confirm = logged
for o in obs:
    t0 = time.time(); solve.solve(o)
    print(o.oid, "line", o.line, "->", o.verdict, o.backend, round(time.time() - t0, 1), "s", getattr(o, "reason", ""))
