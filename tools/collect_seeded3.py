#!/usr/bin/env python3
"""Dev tool (round 2): copy the verified seeded changes of /tmp/wt3/out into /verif/seeded/<Cnn-(k+2)>/ and run the verification steps."""
import json, re, shutil, subprocess, sys
from pathlib import Path
ROOT = Path("/verif")
initially_missed = set(sys.argv[1:])
peeked = set()
rows = []
for P in ("C01", "C02", "C03", "C05", "C06", "C07"):
    for k in (1, 2):
        out = Path(f"/tmp/wt3/out/{P}")
        sid = f"{P}-{k + 2}"
        d = ROOT / "seeded" / sid
        d.mkdir(parents=True, exist_ok=True)
        shutil.copy(out / f"patch{k}.diff", d / "patch.diff")
        demo_text = (out / f"demo{k}.py").read_text()
        (d / "demo.py").write_text(demo_text)
        notes = (out / f"notes{k}.md").read_text() if (out / f"notes{k}.md").exists() else ""
        wt = f"/tmp/wt3/{P}"
        run = lambda cmd: subprocess.run(cmd, shell=True, capture_output=True, text=True)
        run(f"git -C {wt} checkout -q -- . ; git -C {wt} clean -fdq")
        clean_demo = run(f"cd {wt} && /venv/bin/python {out}/demo{k}.py").returncode
        ap = run(f"git -C {wt} apply {out}/patch{k}.diff").returncode
        tests = run(f"cd {wt} && /venv/bin/python -m pytest -q -p no:cacheprovider -o log_cli=false 2>&1 | tail -1").stdout.strip()
        demo = run(f"cd {wt} && /venv/bin/python {out}/demo{k}.py").returncode
        chk = run(f"cd /verif && PYVC_REPO={wt} ./vcheck {P} 2>&1")
        summary = [l for l in chk.stdout.splitlines() if l.startswith(f"{P}:")]
        clauses = sorted({l.strip()[8:] for l in chk.stdout.splitlines() if l.startswith("  clause:")})[:4]
        obl = [l[:300] for l in chk.stdout.splitlines() if l.startswith(("OBLIGATION-FAILED", "UNDECIDED", "DEMOTED"))][:4]
        run(f"git -C {wt} checkout -q -- . ; git -C {wt} clean -fdq")
        files = re.findall(r"^\+\+\+ b/(\S+)", (out / f"patch{k}.diff").read_text(), re.M)
        meta = {"id": sid, "property": P, "round": 3, "files_changed": files, "needs_to_manifest_and_notes": notes[:2200],
                "ran": {"demo_exit_on_unchanged_tree": clean_demo, "patch_applies": ap == 0, "pinned_tests_with_change": tests,
                        "demo_exit_with_change": demo, "check_cmd": f"PYVC_REPO=<scratch worktree with the change> ./vcheck {P} --tier quick",
                        "check_exit": chk.returncode, "check_summary": summary, "failed_clauses": clauses, "deductive_lines": obl},
                "caught_by": P if chk.returncode == 1 else None,
                "caught_only_after_strengthening": sid in initially_missed,
                "note": ("the sub-agent that wrote this change read /verif/contracts/c08.py although it was told to stay out of /verif; "
                         "the change is kept (it is a valid property-breaking change and was aimed at what that check did not sample)") if sid in peeked else ""}
        (d / "meta.json").write_text(json.dumps(meta, indent=1))
        rows.append((sid, chk.returncode, tests, clean_demo, demo, sid in initially_missed, clauses[:1], obl[:1]))
        print(rows[-1][:6], flush=True)
json.dump(rows, open(ROOT / "seeded" / "SUMMARY3.json", "w"), indent=1)
